#!/venv/bin/python
"""check.py <property id> [--tier quick|thorough] [--replay file]

Exit 0: the property held on everything explored (KNOWN-FINDING lines for
listed findings).  Exit 1: VIOLATION property=<id> replay=<path>.  Exit 2:
the machinery itself failed (never reported as a violation)."""
import os
import sys

os.environ.setdefault('PYTHONHASHSEED', '0')
# VERIF_REPO is only for evaluating seeded defects in a scratch worktree;
# the registered commands always check /repo itself
REPO = os.environ.get('VERIF_REPO', '/repo')
sys.path.insert(0, os.path.join(REPO, 'src'))
sys.path.insert(0, os.path.dirname(os.path.abspath(__file__)))

SERVER = {'C03', 'C04', 'C05', 'C06', 'C07', 'C08', 'C09', 'C11', 'C12', 'C14',
          'C15', 'C16', 'C19', 'C20'}
MODS = {'C13': 'prop_c13', 'C17': 'prop_c17', 'C10': 'prop_c10',
        'C18': 'admin', 'C01': 'prop_c01', 'C02': 'prop_c02'}


def main():
    args = sys.argv[1:]
    pid = args[0]
    tier = os.environ.get('VERIF_TIER', 'quick')
    if '--tier' in args:
        tier = args[args.index('--tier') + 1]
    if '--replay' in args:
        from harness import replay
        return replay.main(pid, args[args.index('--replay') + 1])
    if pid in SERVER:
        from harness import prop_server
        return prop_server.run(pid, tier)
    if pid in MODS:
        import importlib
        return importlib.import_module('harness.' + MODS[pid]).run(pid, tier)
    print('unknown property', pid)
    return 2


if __name__ == '__main__':
    try:
        rc = main()
    except SystemExit:
        raise
    except BaseException:       # the machinery failed: never exit 1 for that
        import traceback
        traceback.print_exc()
        print('MACHINERY-ERROR: uncaught exception in the check itself',
              flush=True)
        rc = 2
    sys.exit(rc)
