#!/usr/bin/env python3
"""Evaluate seeded defects produced by independent sub-agents.

For every /tmp/wt-out/<ID>/m<k>/ (patch.diff, demo.py, meta.json):
 1. confirm, in a scratch worktree, that the patch applies, the repository's
    tests still pass with it, the demo fails with it and passes without;
 2. run `check.py <ID> --tier quick` against the patched scratch tree
    (VERIF_REPO) and record whether it reports a VIOLATION;
 3. keep confirmed ones under /verif/seeded/<ID>-m<k>/.
"""
import json
import os
import shutil
import subprocess
import sys

OUT = '/tmp/wt-out'
SEEDED = '/verif/seeded'
PY = '/venv/bin/python'


def sh(cmd, cwd=None, env=None, timeout=3000):
    e = dict(os.environ)
    e.update(env or {})
    p = subprocess.run(cmd, shell=True, cwd=cwd, env=e, capture_output=True,
                       text=True, timeout=timeout)
    return p.returncode, p.stdout + p.stderr


def evaluate(pid, mdir, wt, checks=None):
    name = os.path.basename(mdir)
    patch = os.path.join(mdir, 'patch.diff')
    demo = os.path.join(mdir, 'demo.py')
    res = {'property': pid, 'mutant': name}
    sh('git checkout -- . && git clean -fdq', cwd=wt)
    env = {'PYTHONPATH': wt + '/src'}
    rc0, _ = sh('%s %s' % (PY, demo), cwd=wt, env=env, timeout=300)
    res['demo_passes_without'] = rc0 == 0
    rc, out = sh('git apply %s' % patch, cwd=wt)
    if rc != 0:
        res['error'] = 'patch does not apply: ' + out[-300:]
        return res
    try:
        rc1, _ = sh('%s %s' % (PY, demo), cwd=wt, env=env, timeout=300)
        res['demo_fails_with_patch'] = rc1 != 0
        rct, outt = sh(
            '%s -m pytest -q -p no:cacheprovider -x --timeout=120 '
            '--ignore=tests/common/test_admin.py '
            '--ignore=tests/async/test_admin.py tests' % PY, cwd=wt, env=env)
        res['tests_pass'] = rct == 0
        res['tests_tail'] = outt.strip().splitlines()[-1] if outt.strip() \
            else ''
        res['checks'] = {}
        for c in (checks or [pid]):
            rcc, outc = sh('%s /verif/check.py %s --tier quick' % (PY, c),
                           cwd='/verif', env={'VERIF_REPO': wt})
            viol = [l for l in outc.splitlines() if l.startswith('VIOLATION')]
            res['checks'][c] = {'exit': rcc, 'violation_lines': viol[:3],
                                'detail': [l for l in outc.splitlines()
                                           if l.startswith('  ') and
                                           ('REJECTED' in l or 'violates' in l
                                            or 'rejected' in l)][:2]}
        res['detected_by'] = [c for c, r in res['checks'].items()
                              if r['exit'] == 1 and r['violation_lines']]
    finally:
        sh('git checkout -- . && git clean -fdq', cwd=wt)
    return res


def main():
    pids = sys.argv[1:]
    for pid in pids:
        extra = None
        if ':' in pid:
            pid, extra = pid.split(':')
            extra = extra.split(',')
        base = os.path.join(OUT, pid)
        wt = '/tmp/wt/' + pid
        for name in sorted(os.listdir(base)):
            mdir = os.path.join(base, name)
            if not os.path.exists(os.path.join(mdir, 'patch.diff')):
                continue
            r = evaluate(pid, mdir, wt, extra)
            print(json.dumps(r)[:1500], flush=True)
            confirmed = r.get('demo_passes_without') and \
                r.get('demo_fails_with_patch') and r.get('tests_pass')
            if confirmed:
                dst = os.path.join(SEEDED, '%s-%s' % (pid, name))
                os.makedirs(dst, exist_ok=True)
                shutil.copy(os.path.join(mdir, 'patch.diff'), dst)
                shutil.copy(os.path.join(mdir, 'demo.py'), dst)
                meta = {}
                try:
                    meta = json.load(open(os.path.join(mdir, 'meta.json')))
                except Exception:
                    pass
                meta.update({'property': pid, 'confirmed': {
                    'demo_passes_without': True, 'demo_fails_with_patch': True,
                    'repo_tests_pass_with_patch': r['tests_tail']},
                    'what_i_ran': 'tools/eval_mutants.py: scratch worktree, '
                    'git apply, pytest (admin tests excluded: they need the '
                    'network), demo with and without, check.py --tier quick '
                    'with VERIF_REPO pointing at the patched worktree',
                    'checks': r['checks'],
                    'detected_by': r['detected_by']})
                json.dump(meta, open(os.path.join(dst, 'meta.json'), 'w'),
                          indent=1)


if __name__ == '__main__':
    main()
