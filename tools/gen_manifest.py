#!/usr/bin/env python3
"""Regenerates /verif/MANIFEST.json from the table below (single source)."""
import json
import os

ROOT = os.path.dirname(os.path.dirname(os.path.abspath(__file__)))
props = [json.loads(l) for l in open(os.path.join(ROOT, 'properties.jsonl'))]

SRV_NOTE = ('Trusted: TLC, CPython, python-engineio 4.14 (real server side, '
            'sockets injected in memory), the harness projection and token '
            'maps (cross-checked by G3 state-count equality). Small scope: '
            'the constants of the configurations named in the evidence.')

CHECKS = {
 'C01': dict(
    technique='TLA+ Packet.tla: the v5 frame grammar (RefFrame) and the code-shaped header reading (Scan) at character level, trees with depth-first placeholder numbering; TLC proves round trip on its universe, dumps it, and judges every case recorded from the real Packet codec (PacketCases.tla)',
    text='G1: on 1179 packets built from a hostile little alphabet (digits next to "-" "," "/" "?" in namespaces, event names and strings; ids up to 100 digits; byte strings nested in lists and dicts) TLC checks Scan(RefFrame(p)) = header(p) with "/" implied and the query string dropped, Reconstruct(Deconstruct(d)) = d with attachments in production order, and that byte strings are accepted only for events and acks. G2: TLC dumps that universe; every packet of it plus seeded random packets (unicode incl. non-BMP and control characters, floats, 64-bit and 100-digit numbers, nested byte strings) is (enc) encoded by the real Packet and compared character by character with RefFrame, attachments in order, and (dec) encoded by the independent specification-derived codec harness/refcodec.py - which TLC requires to equal RefFrame - and decoded by the real Packet with add_attachment per attachment: type, namespace, id, payload tree and the completion flags must be what the spec says; (scan) mutated ASCII frames: the header reading and the refusals of Packet.decode must be Scan. Coverage of the universe by the cases is checked by TLC.',
    ref='4/C01', note='Trusted: TLC; the json module for the text of JSON scalars (a scalar travels with its text); msgpack is exercised end to end in C02, not here. Binary packets are built as the library builds them (EVENT/ACK promoted by the constructor).'),
 'C02': dict(
    technique='TLA+ E2E.tla (per-direction FIFO of emitted messages, packed return values travelling back; Pack/Shape rules) model-checked by TLC + trace validation: recorded conversations of a real Client joined to a real Server (and AsyncClient/AsyncServer) replayed by TLC (E2ETraces.tla)',
    text='8 configurations {Server+Client, AsyncServer+AsyncClient} x {default, msgpack} x {text/base64, binary engine.io framing}: seeded conversations of bursts of emit/send/call in either direction on two namespaces with callbacks, call() or no acknowledgement, payloads = JSON trees with byte-string leaves (unicode incl. non-BMP and control characters, 64-bit integers, floats, tuples at top level only, None, empty tuple), handler return values of the same shapes; the pipe is pumped after several messages so multi-frame binary packets of different messages are in flight together. Every payload is interned by strict deep equality (bytes/str, bool/int, int/float, list/tuple distinct); each recorded event (Emit, Handled with the arguments the handler really got, Callback, CallReturned, End) must be enabled in E2E.tla: oldest message first, same namespace and event, exactly Pack(x) as arguments, callback/call() result = Pack(return value) of that very emit, once; nothing left in flight at the end. G1: the machine itself is explored (1.6M states) for the arity and shape lemmas.',
    ref='4/C02', note='Trusted: TLC; FakeEio on the client side, real engine.io server socket and real engine.io packet codec on the pipe; strict deep equality of payloads is the harness\'s (tokens.strict_eq). Threaded server: async_handlers=True with the background task run inline (Server.call() requires async_handlers).'),
 'C03': dict(
    technique='TLA+ SioServer.tla model-checked by TLC; exhaustive transition-graph validation of Manager/AsyncManager via Server/AsyncServer',
    text='G1: TLC checks C03_Recipients (code-shaped recipient computation = statement-shaped addressed set for EVERY emit of the alphabet in EVERY reachable state), C03_RoomsListing, C03_NoGhostsOfTheDeparted on the spec. G2: from every reachable abstract state of the real Server and AsyncServer every alphabet action is executed and TLC re-executes the edge with the spec, comparing the whole projected manager state, every packet per transport, results. G3: state counts equal, so the two graphs are equal inside the scope.',
    ref='4/C03', note=SRV_NOTE),
 'C04': dict(
    technique='TLA+ SioServer.tla (lifecycle configs) + exhaustive graph validation on Server and AsyncServer',
    text='Connect admission/refusal outcomes, fresh session ids, refusal payloads, disconnect handler exactly once with the right reason, other namespaces untouched: invariants C04_* on the spec (G1) for always_connect x {fn,class} x namespaces {default,list,*}; every edge of the real servers validated (G2) and counts equal (G3). Schedules (asyncio interleavings) are decided by SrvDisconnectAsync when built.',
    ref='4/C04', note=SRV_NOTE),
 'C05': dict(
    technique='TLA+ SioServer.tla (events configs) + exhaustive graph validation',
    text='C05_EventDispatch / C05_BinaryEventDispatch over every RxEvent / attachment of the alphabet in every reachable state: one handler call with sid+args, one ACK/BINARY_ACK with the same id on the sender transport only, none when nobody is responsible; async_handlers on (joined) and off; function and class handlers; both servers.',
    ref='4/C05', note=SRV_NOTE),
 'C06': dict(
    technique='TLA+ SioServer.tla (acks config) + exhaustive graph validation',
    text='C06_IssuedIdUnique, C06_AckOutcome (callback only for owner+id, exact args, every other ACK leaves ALL state unchanged and raises nothing), C06_IssuedMatchesCore, over ACK ids {0, issued, duplicate, never issued, other client, other namespace} and binary ACKs. call(): C06_CallOutcome - Server.call()/AsyncServer.call() is one re-entrant transition whose `during` argument is what arrives while it waits (ACKs from the right or the wrong client / namespace / id, with 0, 1, 2 arguments, duplicates, loss of the transport before or after, nothing): the result must be the shaped acknowledgement of THAT client under THAT id or TimeoutError (read off the schedule, not off the code), an abandoned call\'s id stays harmless, RuntimeError with async_handlers disabled; timeouts by virtual time on the asyncio server.',
    ref='4/C06', note=SRV_NOTE),
 'C08': dict(
    technique='TLA+ SioClient.tla (state config) model-checked by TLC + exhaustive transition-graph validation of Client and AsyncClient over a modelled engine.io client',
    text='C08_Mirror (after a successful connect(wait=True) namespaces/sids/connected mirror what the conformant server accepted and has not ended), C08_ConnectOutcome (one CONNECT per namespace with the auth, success iff all accepted, otherwise ConnectionError and fully disconnected), C08_BadNamespace, C08_HandlersOnce, C08_FullyDisconnected: invariants on the spec; connect(wait=True) is one re-entrant transition whose server replies (orders, partial acceptance, silence) are action arguments; every edge of the real Client/AsyncClient validated (virtual-time loop for asyncio), state counts equal.',
    ref='4/C08', note='Trusted: TLC; FakeEio transcribes the engine.io client state machine (EioClient.tla) because its transports need packages absent from the sandbox; conformant-server environment as the property assumes.'),
 'C09': dict(
    technique='TLA+ SioClient.tla (acks config) + exhaustive graph validation of Client and AsyncClient',
    text='C09_EventDispatch (one handler call, one ACK/BINARY_ACK with the id and namespace even when no handler is responsible), C09_IssuedIdUnique, C09_AckOutcome (callback once, only for namespace+id outstanding, unknown/repeated ACKs change nothing), C09_IssuedMatchesCore; call() with every order of {ACK, other ACK, transport error, silence} as one re-entrant transition.',
    ref='4/C09', note='Trusted: TLC; FakeEio (see C08).'),
 'C10': dict(
    technique='TLA+ Reconnect.tla (policy as a guarded event machine, model-checked) + trace validation: recorded executions of Client and AsyncClient replayed by TLC (ReconnectTraces.tla)',
    text='Every scenario of the grid {delay} x {delay_max} x {randomization} x {attempts 0/1/3} x reconnection on/off x 4 causes of loss x every failure pattern of the successive attempts up to the bound (transport failure / namespace refusal) x abort at every back-off x {second loss after success, manual reconnect after giving up} is executed on the real Client and AsyncClient; each observed event (Lose/started, Backoff with the timeout handed to the wait primitive or the elapsed virtual time, Attempt with its url/headers/auth/transports/namespaces, Handlers, End) must be enabled in Reconnect.tla: interval of the k-th wait, attempts bound, no attempt after success or abort, one effort at a time, same parameters. random.random is not patched. Known finding D8 modelled as a deviation; the design is model-checked.',
    ref='4/C10', note='Trusted: TLC; FakeEio for engine.io; virtual-time loop; waiting observed only through wait primitives.'),
 'C11': dict(
    technique='TLA+ SioServer.tla (residue config, raising handlers) + exhaustive graph validation + reachability scan of the real server object',
    text='C11_NoResidue and C11_FreshWhenEmpty on spec and on every implementation state; the projection adds a walk of everything reachable from the server object looking for ids of departed clients. Known finding D3 (raising disconnect handler) is modelled as a named deviation; the design without it is model-checked too.',
    ref='4/C11', note=SRV_NOTE),
 'C12': dict(
    technique='TLA+ SioServer.tla (hostile config: RxRaw classes, foreign/absurd ids, stray attachments) + exhaustive graph validation on both servers',
    text='C12_Isolation is an invariant over EVERY frame action of the offender transport in EVERY reachable state: nothing is sent to another transport, no handler runs with another client\'s sid, the bystanders\' view (rooms, callbacks, sessions, binary buffers, environ, pending) is unchanged, undecodable/ill-typed frames (classified by the reference reading of the frame) reach no handler and change nothing. 23 concrete malformed text frames (and 19 for a server using the msgpack serializer: invalid msgpack, non-dict values, missing / ill-typed fields, packets claiming to be binary) + well-formed hostile traffic (bystanders\' ack ids, absurd ids, attachment counts 0 / 10^9, stray attachments, unknown namespaces) interleaved with bystander traffic; bystander actions after any offender prefix are ordinary validated edges.',
    ref='4/C12', note=SRV_NOTE + ' The resource clause (allocation proportional to declared counts) is covered only structurally: the buffer holds received attachments only (binbuf.atts grows by one per received frame).'),
 'C13': dict(
    technique='TLA+ Dispatch.tla: documented precedence vs transcribed resolvers on the full lattice (TLC), every lattice point replayed on the four real classes and judged by TLC (DispatchCases.tla)',
    text='512-point lattice x ordinary/reserved events: TLC proves SrvResolve = CliResolve = DocResolve, function-beats-class, reserved-never-catch-all; 5376 (quick) real registries on Server/AsyncServer/Client/AsyncClient x sync/coroutine deliver a real frame / connect flow and TLC compares the callable that ran and its argument list with DocResolve; coverage of the lattice per class is checked by TLC.',
    ref='4/C13', note='Trusted: TLC, FakeEio standing in for engineio.Client on the client side.'),
 'C17': dict(
    technique='TLA+ NsForward.tla: forwarding rule evaluated by TLC on the complete lattice of helper calls executed on the real namespace classes',
    text='All 4 namespace classes x helper methods x all subsets of optional parameters x {positional, keyword} x {truthy, falsy-but-meaningful values}: the real helper is called on a namespace bound to a recording stub carrying the real target signatures (read from the working tree); TLC computes the expected explicit call from the rule in NsForward.tla and checks coverage of the lattice.',
    ref='4/C17', note='Trusted: TLC, inspect.signature. Defaults of omitted optionals other than namespace are outside the claim, as the property says.'),
 'C19': dict(
    technique='TLA+ SimpleClient.tla (threads with program counters at the Event/buffer operations; asyncio variant with atomic segments and latched wake-ups) model-checked by TLC + exhaustive schedule exploration of the real SimpleClient (baton scheduler, real threads) and AsyncSimpleClient (gate scheduler, virtual-time loop), every step re-executed by TLC (SimpleClientGraph.tla)',
    text='The instance\'s connected_event, input_event and input_buffer are replaced by objects that park the thread before each operation; real threads, one runs at a time; every schedule of {application receive()/emit() calls, handler thread arrivals, connection drop / reconnect / final end / give-up} is explored by state (a few hundred abstract states per configuration) and each step is validated against the spec (whole projected state: pcs, buffer, flags, results). Invariants: returned ++ buffer = arrived (order, exactly once, nothing overtaken), DisconnectedError only after the final end, emit waits out a reconnection, no error while an event is available (known finding D9 modelled; the design without it is model-checked). AsyncSimpleClient: the same module with Atomic = TRUE (a task runs until it awaits a clear event, the handler is atomic, set() latches the waiter\'s wake-up); the real AsyncSimpleClient runs on a virtual-time loop, its two asyncio.Event objects are subclasses that park a woken waiter on a gate, the reconnection back-off is a gate too, and every await-point interleaving of application task, arrivals and connection events is explored and validated step by step.',
    ref='4/C19', note='Trusted: TLC, FakeEio, the baton scheduler (pre-emption at Event/buffer operations, the granularity the property names) and the asyncio gate scheduler (every order in which ready tasks may run: a superset of the event loop\'s FIFO order).'),
 'C20': dict(
    technique='TLA+ SrvDisconnectThreads.tla (one pc per thread, labels = manager / transport / handler / environ accesses) model-checked by TLC + exhaustive schedule exploration of the real threaded Server under the baton scheduler, each step re-executed by TLC',
    text='2-3 real threads run {Server.disconnect(), client DISCONNECT, transport loss, disconnect of the other namespace} on one client; the instance\'s manager methods, eio.send, the disconnect handler and the environ table park the thread before each access; every schedule is explored by abstract state and validated step by step against the spec (membership, pending list, handler runs, packets, thread-local values, results). Invariants: handler exactly once, no thread raises, clean afterwards. The check-then-mark window of the code is the named deviation D7 (known finding); the design with an atomic gate satisfies all invariants (model-checked).',
    ref='4/C20', note='Trusted: TLC, the baton scheduler (pre-emption at the accesses the property names, not per bytecode), real engine.io sockets.'),
 'C14': dict(
    technique='two adapters, one TLA+ specification: the threaded and the asyncio class are each explored exhaustively and validated edge by edge by TLC against the SAME module (SioServer.tla, SioClient.tla) with equal state counts; plus a direct comparison of the two implementation graphs',
    text='For every configuration the real Server and AsyncServer (Client and AsyncClient) are driven through every alphabet action (client frames valid and malformed, API calls, transport losses) from every reachable abstract state, background handlers joined; both graphs must be the specification\'s graph (G2+G3), and the two recorded graphs (states, packets per peer, handler and callback invocations, results/exceptions, after renaming session ids by order of appearance) must be identical to each other. Managers are covered through the servers, namespaces through C13/C17 cases on all four classes; The pub/sub managers are part of this check too (clusters of Server+PubSubManager and of AsyncServer+AsyncPubSubManager explored on the same alphabets, including junk on the channel and every message encoding, both validated against PubSub.tla and compared with each other); also with the msgpack serializer in the thorough tier. SimpleClient/AsyncSimpleClient are decided by C19 (one module, thread-grain vs await-grain).',
    ref='4/C14', note=SRV_NOTE),
 'C07': dict(
    technique='TLA+ PubSub.tla (N SioServer cores + ordered channel with per-host cursors, reference single server as a ghost) model-checked by TLC; exhaustive transition-graph validation of clusters of real Server+PubSubManager and AsyncServer+AsyncPubSubManager joined by an in-memory channel',
    text='G1: TLC checks on every interleaving of operations with per-host consumption of the FIFO channel: C07_Deliveries (per in-flight emit: at most once per client, only to clients addressed at some point while in flight, exactly the addressed set when no membership change raced it, never on the issuing host by consumption), C07_SingleServerEquivalence (immediate delivery: at every quiet point memberships equal those of ONE SioServer holding all clients, and the packets/handler runs of each operation equal the single server\'s), C07_OwnerHoldsClient, C07_CallbackOnOrigin (application callback only on the issuing host, with the acknowledging client\'s arguments; the relay partial and callback messages modelled as in the code). G2: two real servers per cluster with the library\'s own listener loop running in a thread/task, stepped one message at a time; every action (client frames on either host, emit/enter/leave/close/disconnect via either host or the write-only manager, client ACKs, one listener turn) from every reachable cluster state is re-executed by TLC: per-host manager state, channel contents (unpickled published messages), cursors, packets per client, handler and callback invocations. G3: state counts equal.',
    ref='4/C07', note=SRV_NOTE + ' Channel = ordered list of pickled messages, as the bundled backends publish them; Kombu/Kafka/ZeroMQ/aio-pika transports are not run (client libraries absent). Remote membership operations are linearized where the owning host applies them (DESIGN.md 4/C07).'),
 'C15': dict(
    technique='TLA+ PubSub.tla listener turn (Consume) with junk classes, forged/foreign callback messages, backend iterator failures and raising application code; TLC invariants + exhaustive graph validation with the library\'s real _thread() loop; TLA+ RedisRetry.tla + trace validation of the Redis backends over a fake redis client',
    text='C15_ListenerAlive and C15_EchoAndJunkChangeNothing on the spec; on the real PubSubManager and AsyncPubSubManager every element of a 29-variant junk catalogue (undecodable bytes, pickles/JSON of non-dicts, dicts without method, unknown methods, missing/ill-typed/surplus fields, values on which the loop\'s own test raises) plus a failing backend iterator is sent down the channel in every quiet state of a small cluster, every listener takes its turn on it, and a sentinel broadcast sent right behind it must be applied by every listener with its exact effect (JunkProbe action); junk and faults are also interleaved with in-flight messages, own-host echoes, callback messages addressed to other hosts / unknown ids, application callbacks that raise and a disconnect handler that raises inside the listener. Every step is re-executed by TLC against PubSub.tla (state of every host, cursors, liveness of the loop, outputs). Valid messages are also delivered in every encoding a backend may use (pickle bytes, JSON text, JSON bytes, dict). Broker failures: RedisManager and AsyncRedisManager run over a fake redis client with scripted failures (every pattern of connect / subscribe / listen failures up to a bound, outages long enough for the back-off to reach its cap, publish failures); the recorded executions (sleeps observed through the module attribute, connection generations, messages produced and yielded) are replayed by TLC against RedisRetry.tla: the listener never stops, sleeps 1,2,4,...,60 and back to 1 after recovery, resubscribes on the NEW connection, loses no message; _publish retries once on a fresh connection and never raises.',
    ref='4/C15', note=SRV_NOTE + ' The junk classification is the reference reading in harness/pubsub.py (validated against the unchanged tree: a wrong class is a rejected edge). The Redis legs trust the fake `redis` client (harness/fake_redis: scripted failures of from_url / subscribe / listen / publish) to behave like the real library at those four calls.'),
 'C18': dict(
    technique='TLA+ Admin.tla (Accept over credential VALUES, admin requests gated by mode/read_only, everything else = SioServer) model-checked by TLC; real instrumented Server/AsyncServer: credential cases judged by TLC (AdminCases.tla), exhaustive transition-graph validation with an admin client attached (AdminGraph.tla), and the plain SioServer graphs re-explored on instrumented servers',
    text='(a) Credentials: for auth in {False, dict, list of dicts, sync predicate, coroutine predicate} x (the specification payload set: absent, None, scalars, list containing the credentials, equal, other member, subset, superset, wrong value, type-confused, case-changed, nested, {} + seeded mutations of the credentials) a real CONNECT to the admin namespace is sent to a freshly instrumented real server that also holds an application client; TLC evaluates Accept on the values actually sent and demands CONNECT iff entitled, CONNECT_ERROR "authentication failed" and no membership otherwise, nothing else on the server touched; TLC also checks AcceptOnlyWhenEntitled on the spec. (b) Gating: with an authenticated admin attached, every admin request {emit, join, leave, _disconnect} x room filter from every reachable state: in read_only or production mode UNCHANGED application state and no packet/handler (C18_GatedRequestsDoNothing), in development read-write exactly the corresponding server call; every edge re-executed by TLC. (c) Transparency: the SioServer alphabets (acks, events, lifecycle, rooms, sessions, residue, hostile) explored exhaustively on instrumented servers (development/production, admin attached or not, projection hiding the admin namespace and transport) must yield exactly the plain SioServer graph (every edge + equal state counts).',
    ref='4/C18', note=SRV_NOTE + ' The periodic server_stats task is not started and the instrumentation\'s sleep(0.1) is a no-op in the harness; engine.io Socket class patches of instrument() are undone right after the call (those entry points are HTTP/WebSocket glue the in-memory substrate never uses).'),
 'C16': dict(
    technique='TLA+ SioServer.tla (sessions config) + exhaustive graph validation with the real engine.io session store',
    text='C16_SessionIsolation: get_session/session() return the declared contents for that client+namespace, never a foreign value; known finding D6 (session survives a namespace-level disconnect) is modelled exactly, the design without it is model-checked.',
    ref='4/C16', note=SRV_NOTE),
}

checks = []
for p in props:
    c = CHECKS.get(p['id'])
    if not c:
        continue
    checks.append({
        'property_id': p['id'],
        'quick_cmd': '/venv/bin/python /verif/check.py %s --tier quick' % p['id'],
        'thorough_cmd': '/venv/bin/python /verif/check.py %s --tier thorough' % p['id'],
        'evidence_file': '/verif/evidence/%s.json' % p['id'],
        'replay_cmd_template': '/venv/bin/python /verif/check.py %s --replay {path}' % p['id'],
        'engine': 'tla-graph',
        'level_claimed': {'category': 'model_checking', 'text': c['text'],
                          'design_ref': c['ref']},
        'level_note': c['note'],
        'technique': c['technique'],
    })

m = {
 'version': 1,
 'setup_cmd': 'cd /verif && /venv/bin/python tools/selfcheck.py',
 'hooks': {'guard': 'PYTHON_SOCKETIO_VERIF',
           'enable': 'no hooks in /repo: every observation is at a public seam or an instance attribute (DESIGN.md section 7)',
           'baseline_off_cmd': 'cd /repo && /venv/bin/python -m pytest -ra -q -p no:cacheprovider --timeout=900 --continue-on-collection-errors',
           'source_commits': [], 'add_only': True},
 'engines': [{'name': 'tla-graph', 'path': '/verif/check.py',
              'serves_properties': [c['property_id'] for c in checks],
              'kind_free_text': 'explicit TLA+ specifications (spec/*.tla) model-checked by TLC; the real classes are explored exhaustively (or along traces) and TLC re-executes every recorded implementation edge against the specification; state-count equality'}],
 'checks': checks,
 'not_applicable': [{'property_id': p['id'],
                     'reason': 'check not built yet (in progress, see DESIGN.md section 4 for the planned TLA+ module)'}
                    for p in props if p['id'] not in CHECKS],
 'notes': 'fix: commits in /repo: see known_findings.json (status fixed). Known findings: status known.',
}
json.dump(m, open(os.path.join(ROOT, 'MANIFEST.json'), 'w'), indent=1)
print('checks:', [c['property_id'] for c in checks])
