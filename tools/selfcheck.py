#!/venv/bin/python
"""setup_cmd: verify the toolchain the checks need is present (offline)."""
import os
import shutil
import subprocess
import sys

sys.path.insert(0, '/repo/src')
import socketio   # noqa
assert socketio.__file__.startswith('/repo/src/'), socketio.__file__
assert os.path.exists('/opt/veriftools/tla/tla2tools.jar')
assert shutil.which('java')
os.makedirs('/verif/.work', exist_ok=True)
os.makedirs('/verif/evidence', exist_ok=True)
os.makedirs('/verif/replay', exist_ok=True)
r = subprocess.run(['java', '-cp', '/opt/veriftools/tla/tla2tools.jar',
                    'tla2sany.SANY', '/verif/spec/SioServer.tla'],
                   capture_output=True, text=True)
assert 'Semantic processing of module SioServer' in r.stdout, r.stdout[-500:]
print('selfcheck ok')
