#!/venv/bin/python
"""Developer aid: run G1+G2+G3 for ONE configuration of a plan.
usage: tools/dev_config.py <plan id> <config> [dev,dev..]"""
import os
import sys
os.environ.setdefault('PYTHONHASHSEED', '0')
sys.path.insert(0, os.path.join(os.environ.get('VERIF_REPO', '/repo'), 'src'))
sys.path.insert(0, os.path.dirname(os.path.dirname(os.path.abspath(__file__))))
from harness import common, prop_server  # noqa

pid, name = sys.argv[1], sys.argv[2]
dev = sys.argv[3].split(',') if len(sys.argv) > 3 and sys.argv[3] else []
v = common.Verdict('DEV', 'dev')
v.planid = pid
v.differential = None
r = prop_server.check_config(v, name, prop_server.PLAN[pid]['inv'], dev)
print('result:', r if not isinstance(r, tuple) else r[1].get('verdict'))
if isinstance(r, tuple):
    import json
    print(json.dumps(r[1], indent=1)[:6000])
for e in v.errors:
    print('ERR', e[:3000])
print('violations', v.violations, 'differential', v.differential)
