#!/usr/bin/env python3
"""(Re-)evaluate seeded defects against the CURRENT checks.

usage: tools/reeval.py [-j N] [--new DIR] [ids...]

 * every /verif/seeded/<id>/ (patch.diff, demo.py, meta.json) - or only the
   ids given - is applied to its own scratch worktree of /repo under
   /tmp/wt-eval/, the repository's tests and the demo are re-confirmed, the
   responsible quick check(s) run with VERIF_REPO pointing at the scratch
   tree, and meta.json is updated (detected_by, what each check said);
 * --new DIR imports freshly produced mutants from DIR/<Cxx>/m<k>/ into
   /verif/seeded/<Cxx>-<tag>m<k>/ first (only confirmed ones are kept).
The scratch worktrees are removed afterwards.  Nothing is ever applied to
/repo itself.
"""
import concurrent.futures as cf
import json
import os
import shutil
import subprocess
import sys

SEEDED = '/verif/seeded'
PY = '/venv/bin/python'
# checks that may also see a defect seeded for another property
ALSO = {'C14': ['C04', 'C09', 'C15', 'C07', 'C05', 'C10'], 'C04': ['C14'],
        'C09': ['C13'], 'C05': ['C13', 'C01'], 'C08': ['C10', 'C09'],
        'C20': ['C04'], 'C11': ['C04', 'C14'], 'C12': ['C01'], 'C02': ['C09', 'C08'], 'C06': ['C11', 'C04']}


def sh(cmd, cwd=None, env=None, timeout=3600):
    e = dict(os.environ)
    e.update(env or {})
    try:
        p = subprocess.run(cmd, shell=True, cwd=cwd, env=e,
                           capture_output=True, text=True, timeout=timeout)
        return p.returncode, p.stdout + p.stderr
    except subprocess.TimeoutExpired as ex:
        return 124, 'TIMEOUT after %ss' % timeout


def evaluate(sid):
    d = os.path.join(SEEDED, sid)
    meta = json.load(open(os.path.join(d, 'meta.json')))
    pid = meta.get('property') or sid.split('-')[0]
    wt = '/tmp/wt-eval/' + sid
    shutil.rmtree(wt, ignore_errors=True)
    sh('git -C /repo worktree prune')
    rc, out = sh('git -C /repo worktree add --detach %s HEAD' % wt)
    if rc != 0:
        return sid, {'error': 'worktree: ' + out[-300:]}
    res = {}
    try:
        env = {'PYTHONPATH': wt + '/src'}
        rc0, _ = sh('%s %s/demo.py' % (PY, d), cwd=wt, env=env, timeout=600)
        rc, out = sh('git apply %s/patch.diff' % d, cwd=wt)
        if rc != 0:
            return sid, {'error': 'patch does not apply: ' + out[-300:]}
        rc1, _ = sh('%s %s/demo.py' % (PY, d), cwd=wt, env=env, timeout=600)
        rct, outt = sh(
            '%s -m pytest -q -p no:cacheprovider -x --timeout=120 '
            '--ignore=tests/common/test_admin.py '
            '--ignore=tests/async/test_admin.py tests' % PY, cwd=wt, env=env)
        res['confirmed'] = {
            'demo_passes_without': rc0 == 0,
            'demo_fails_with_patch': rc1 != 0,
            'repo_tests_pass_with_patch': rct == 0,
            'tests_tail': (outt.strip().splitlines() or [''])[-1]}
        res['checks'] = {}
        for c in [pid] + [x for x in ALSO.get(pid, []) if x != pid]:
            rcc, outc = sh('%s /verif/check.py %s --tier quick' % (PY, c),
                           cwd='/verif', env={'VERIF_REPO': wt},
                           timeout=2400)
            lines = outc.splitlines()
            viol = [l for l in lines if l.startswith('VIOLATION')]
            res['checks'][c] = {
                'exit': rcc, 'violation_lines': viol[:2],
                'detail': [l[:600] for l in lines
                           if l.startswith('  ') and (
                               'REJECTED' in l or 'violates' in l or
                               'rejected' in l or 'differ' in l or
                               'more abstract states' in l)][:2],
                'machinery_error': [l[:300] for l in lines
                                    if l.startswith('MACHINERY-ERROR')][:1]}
            if rcc == 1 and viol and c == pid:
                break       # detected by its own check: enough
        res['detected_by'] = [c for c, r in res['checks'].items()
                              if r['exit'] == 1 and r['violation_lines']]
    finally:
        sh('git -C /repo worktree remove --force %s' % wt)
        shutil.rmtree('/verif/.work/eval/' + sid, ignore_errors=True)
    meta.update(res)
    meta['property'] = pid
    meta['what_i_ran'] = (
        'tools/reeval.py: fresh scratch worktree of /repo under /tmp/wt-eval, '
        'git apply patch.diff, repository tests (admin tests excluded: they '
        'need sockets), demo.py without and with the patch, check.py <id> '
        '--tier quick with VERIF_REPO pointing at the patched worktree; '
        'worktree removed afterwards')
    json.dump(meta, open(os.path.join(d, 'meta.json'), 'w'), indent=1)
    return sid, res


def import_new(src, tag):
    new = []
    for pid in sorted(os.listdir(src)):
        pd = os.path.join(src, pid)
        if not os.path.isdir(pd):
            continue
        for m in sorted(os.listdir(pd)):
            md = os.path.join(pd, m)
            if not os.path.exists(os.path.join(md, 'patch.diff')):
                continue
            sid = '%s-%s%s' % (pid, tag, m)
            dst = os.path.join(SEEDED, sid)
            patch = open(os.path.join(md, 'patch.diff')).read()
            if os.path.exists(dst):
                if open(os.path.join(dst, 'patch.diff')).read() == patch:
                    new.append(sid)     # same defect: just re-evaluate
                    continue
                sid = '%s-b%s' % (pid, m)       # a second batch
                dst = os.path.join(SEEDED, sid)
                if os.path.exists(dst):
                    new.append(sid)
                    continue
            os.makedirs(dst)
            shutil.copy(os.path.join(md, 'patch.diff'), dst)
            shutil.copy(os.path.join(md, 'demo.py'), dst)
            try:
                meta = json.load(open(os.path.join(md, 'meta.json')))
            except Exception:
                meta = {}
            meta['property'] = pid
            json.dump(meta, open(os.path.join(dst, 'meta.json'), 'w'),
                      indent=1)
            new.append(sid)
    return new


def summary():
    rows = []
    for sid in sorted(os.listdir(SEEDED)):
        mp = os.path.join(SEEDED, sid, 'meta.json')
        if not os.path.exists(mp):
            continue
        m = json.load(open(mp))
        c = m.get('confirmed', {})
        ok = c.get('demo_passes_without') and c.get(
            'demo_fails_with_patch') and (
            c.get('repo_tests_pass_with_patch') is True or
            isinstance(c.get('repo_tests_pass_with_patch'), str))
        det = m.get('detected_by') or []
        why = ''
        for ck, r in (m.get('checks') or {}).items():
            if r.get('detail'):
                why = r['detail'][0].strip()[:160]
                break
        rows.append((sid, m.get('property', '?'), 'yes' if ok else '?',
                     ', '.join(det) if det else '**not detected**',
                     (m.get('summary') or '').replace('\n', ' ')[:220],
                     (m.get('needs') or m.get('needs_to_manifest') or
                      '').replace('\n', ' ')[:200], why))
    with open(os.path.join(SEEDED, 'SUMMARY.md'), 'w') as f:
        f.write('# Seeded defects and the checks that catch them\n\n'
                'Generated by tools/reeval.py from the meta.json files. '
                'Each defect was produced by an independent sub-agent that '
                'saw only the text of one property; "confirmed" = the patch '
                'applies, the repository tests pass with it, the demo fails '
                'with it and passes without.\n\n')
        n = len(rows)
        d = sum(1 for r in rows if not r[3].startswith('**'))
        f.write('%d defects, %d detected by at least one quick check.\n\n'
                % (n, d))
        f.write('| id | property | confirmed | detected by | what was '
                'changed | needs | first rejection |\n|---|---|---|---|---|'
                '---|---|\n')
        for r in rows:
            f.write('| ' + ' | '.join(x.replace('|', '/') for x in r) +
                    ' |\n')
    print('summary: %d defects, %d detected' % (n, d))


def main():
    args = sys.argv[1:]
    if args == ['--summary']:
        return summary()
    jobs = 3
    if '-j' in args:
        jobs = int(args[args.index('-j') + 1])
        del args[args.index('-j'):args.index('-j') + 2]
    ids = []
    if '--new' in args:
        i = args.index('--new')
        src = args[i + 1]
        tag = args[i + 2] if len(args) > i + 2 and not args[i + 2].startswith(
            'C') else ''
        ids += import_new(src, tag)
        del args[i:i + (3 if tag else 2)]
    ids += args
    if not ids:
        ids = sorted(os.listdir(SEEDED))
    os.makedirs('/tmp/wt-eval', exist_ok=True)
    with cf.ThreadPoolExecutor(jobs) as ex:
        for sid, res in ex.map(evaluate, ids):
            c = res.get('confirmed', {})
            ok = c.get('demo_passes_without') and \
                c.get('demo_fails_with_patch') and \
                c.get('repo_tests_pass_with_patch')
            print(sid, 'CONFIRMED' if ok else 'NOT-CONFIRMED %s' % (
                res.get('error') or c), 'detected_by=%s' % res.get(
                    'detected_by'),
                {k: (v['exit'], v['machinery_error']) for k, v in
                 res.get('checks', {}).items()}, flush=True)
            if not ok and 'error' not in res:
                # keep only defects that are confirmed
                shutil.rmtree(os.path.join(SEEDED, sid), ignore_errors=True)
    summary()


if __name__ == '__main__':
    main()
