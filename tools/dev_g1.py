#!/venv/bin/python
"""Developer aid: G1 only (TLC on the spec) for one configuration.
usage: tools/dev_g1.py <plan id> <config> [dev,..]"""
import os
import sys
import time
os.environ.setdefault('PYTHONHASHSEED', '0')
sys.path.insert(0, os.path.join(os.environ.get('VERIF_REPO', '/repo'), 'src'))
sys.path.insert(0, os.path.dirname(os.path.dirname(os.path.abspath(__file__))))
from harness import common, prop_server  # noqa

pid, name = sys.argv[1], sys.argv[2]
dev = sys.argv[3].split(',') if len(sys.argv) > 3 and sys.argv[3] else []
fam = prop_server._fam(pid)
cfg = prop_server._cfg_for(fam, name, dev)
alphabet = getattr(fam['alpha'], cfg['alpha'])(cfg)
print(len(alphabet), 'actions')
wd = os.path.join(common.WORK, 'DEV', name)
t0 = time.time()
r = prop_server._tlc_g1(fam, wd, cfg, alphabet,
                        fam.get('base_inv', prop_server.BASE_INV) +
                        prop_server.PLAN[pid]['inv'], 16)
print(r, '%.1fs' % (time.time() - t0))
if not r.ok:
    print(r.out[-8000:])
r3 = prop_server._tlc_g1(fam, wd, cfg, alphabet, [], 16, True, 'MCV')
print('core states', r3.distinct, r3.error and r3.error[-2000:])
