#!/usr/bin/env python3
"""usage: tools/dev_walks.py <plan> <config> <n> <length> [devs]  - one walk
configuration (development aid)."""
import os
import sys
sys.path.insert(0, os.path.dirname(os.path.dirname(os.path.abspath(__file__))))
from harness import common, prop_server     # noqa

plan, name, n, length = sys.argv[1], sys.argv[2], int(sys.argv[3]), int(
    sys.argv[4])
devs = sys.argv[5].split(',') if len(sys.argv) > 5 else []
v = common.Verdict(plan.rstrip('scpga') if plan not in prop_server.PLAN
                   else plan, 'dev')
v.planid = plan
ok = prop_server.check_walks(v, name, prop_server.PLAN[plan].get(
    'walk_inv', []), devs, n, length)
print('result:', ok)
print('violations', v.violations[:1] if hasattr(v, 'violations') else '')
