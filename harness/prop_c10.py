"""C10 - client reconnection policy (spec/Reconnect.tla,
spec/ReconnectTraces.tla).  Scenarios are executed on the real Client and
AsyncClient over FakeEio; waiting is observed only through the wait
primitives (the timeout handed to Event.wait / elapsed virtual time of
asyncio.wait_for), never wall-clock; random.random is NOT patched."""
import asyncio
import itertools
import json
import os
import random

from . import common, fakeeio, refcodec, tlc, vloop

URL = 'http://host:1'
HEADERS = {'h': 'v'}
AUTH = {'tok': 'A'}
TRANSPORTS = ['polling']
NSS = ['/', '/a']


def ms(x):
    return int(round(x * 1000))


class Scenario:
    """cfg: delay, max, rf, attempts, reconnection; cause; pattern: list of
    steps of the effort: ('timeout'|'abort', 'ok'|'eiofail'|'nsrefused');
    then: what happens after the effort ('lose_again' | 'reconnect_manually'
    | None)."""

    def __init__(self, cfg, cause, pattern, then=None):
        self.cfg = cfg
        self.cause = cause
        self.pattern = list(pattern)
        self.then = then

    def key(self):
        return json.dumps([self.cfg, self.cause, self.pattern, self.then])


class RefreshingAuth:
    """auth given as a callable whose answer changes (a token that is
    refreshed): "the same auth" means the same callable, asked again for
    every connection."""

    def __init__(self):
        self.calls = 0
        self.seen = 0

    def __call__(self):
        self.calls += 1
        return {'tok': 'A%d' % self.calls}

    def field(self, payload):
        fresh = self.calls > self.seen and \
            payload == {'tok': 'A%d' % self.calls}
        self.seen = self.calls
        return 'callable:asked-again' if fresh else \
            'callable:STALE ' + json.dumps(payload, sort_keys=True)


def params_of(eio_call, connects, auth=None):
    # what cannot be observed (the engine.io connection failed before any
    # CONNECT packet was sent) is a wildcard
    if connects and isinstance(auth, RefreshingAuth):
        a = auth.field(connects[0][1])
    else:
        a = json.dumps(connects[0][1], sort_keys=True) if connects else '*'
    return [eio_call['url'], json.dumps(eio_call['headers'], sort_keys=True),
            a,
            json.dumps(eio_call['transports']),
            json.dumps([c[0] for c in connects]) if connects else '*']


class Runaway(BaseException):
    """The effort does not end (e.g. shutdown() no longer stops it): the
    harness stops the execution; the trace ends in an event no state of
    Reconnect.tla enables."""


LIMIT = 300


def run_sync(sc):
    w = fakeeio.World()
    cfg = sc.cfg
    c = fakeeio.make_client(
        w, reconnection=cfg['reconnection'],
        reconnection_attempts=cfg['attempts'],
        reconnection_delay=cfg['delay'] / 1000.0,
        reconnection_delay_max=cfg['max'] / 1000.0,
        randomization_factor=cfg['rf'] / 1000.0)
    events = [{'ev': 'Config', 'cfg': dict(cfg)}]
    handlers = []
    for ns in NSS:
        c.on('connect', (lambda ns=ns: handlers.append(ns)), namespace=ns)
    pattern = list(sc.pattern)
    state = {'outcome': 'ok', 'aborting': False}
    auth = RefreshingAuth() if sc.cfg.get('auth_callable') else AUTH

    def connects_sent():
        out = []
        for p in refcodec.read_frames([f for f in c.eio.sent
                                       if f != '<CLOSE>']):
            if p['type'] == 0:
                out.append((p['ns'], p['data']))
        return out

    # ScriptedEvent.wait consults world.wait_script each time
    def on_wait_factory():
        def script():
            pass
        return script

    orig_wait = fakeeio.ScriptedEvent.wait

    def wait(ev, timeout=None):
        if ev is c._reconnect_abort:
            if len(events) > LIMIT:
                raise Runaway()
            ans, outcome = pattern.pop(0) if pattern else ('abort', None)
            events.append({'ev': 'Backoff', 'd': ms(timeout), 'answer': ans})
            if ans == 'abort':
                events.append({'ev': 'Shutdown'})
                c.shutdown()              # sets the abort event, joins (no-op)
                return ev.flag
            state['outcome'] = outcome
            w.connect_outcomes = ['fail' if outcome == 'eiofail' else 'ok']
            return False
        if ev is c._connect_event:
            # the server answers the CONNECTs of the attempt in progress
            if not state.get('answered'):
                state['answered'] = True
                for i, ns in enumerate(NSS):
                    if state['outcome'] == 'nsrefused' and i == 1:
                        f = refcodec.ref_encode(4, ns, None,
                                                {'message': 'no'})[0]
                    else:
                        f = refcodec.ref_encode(0, ns, None,
                                                {'sid': 'S' + ns})[0]
                    c.eio.deliver(f)
            return ev.flag
        return ev.flag
    fakeeio.ScriptedEvent.wait = wait
    try:
        def app_connect():
            state['outcome'] = 'ok'
            state['answered'] = False
            del c.eio.sent[:]
            n0 = len(c.eio.connect_calls)
            try:
                c.connect(URL, headers=HEADERS, auth=auth,
                          transports=TRANSPORTS, namespaces=NSS)
                ok = True
            except Exception:
                ok = False
            events.append({'ev': 'Connect', 'ok': ok, 'nns': len(NSS),
                           'params': params_of(c.eio.connect_calls[n0],
                                               connects_sent(), auth)
                           if len(c.eio.connect_calls) > n0
                           else ['?no-attempt'] * 5})
        app_connect()

        def lose(cause):
            ntasks = len(w.tasks)
            if cause == 'transport_error' and pattern and \
                    pattern[0][1] == 'notreset':
                # engine.io tells the client while its own state still says
                # "connected" and resets only afterwards; here the first
                # back-off of the effort ends BEFORE that
                c.eio._trigger('disconnect', c.eio.reason.TRANSPORT_ERROR)
                state['late_reset'] = True
            elif cause == 'transport_error':
                c.eio.transport_error()
            elif cause == 'client_disconnect':
                c.disconnect()
            elif cause == 'server_close':
                c.eio.server_close()
            else:
                for ns in NSS:
                    c.eio.deliver(refcodec.ref_encode(1, ns)[0])
            started = len(w.tasks) > ntasks
            events.append({'ev': 'Lose', 'cause': cause, 'started': started})
            return w.tasks[-1] if started else None

        def run_effort(task):
            # wrap eio.connect to observe attempts
            orig_connect = c.eio.connect

            def connect(*a, **k):
                del c.eio.sent[:]
                state['answered'] = False
                del handlers[:]
                n0 = len(c.eio.connect_calls)
                try:
                    return orig_connect(*a, **k)
                finally:
                    if len(c.eio.connect_calls) == n0:
                        # refused before anything was tried (not reset yet)
                        c.eio.connect_calls.append({
                            'url': a[0] if a else k.get('url'),
                            'headers': k.get('headers'),
                            'transports': k.get('transports'),
                            'path': k.get('engineio_path')})
                    events.append({'ev': 'Attempt',
                                   'outcome': state['outcome'],
                                   'params': None, '_n0': n0})
            c.eio.connect = connect
            orig_sio_connect = c.connect

            def sio_connect(*a, **k):
                try:
                    return orig_sio_connect(*a, **k)
                finally:
                    for e in events:
                        if e.get('ev') == 'Attempt' and e['params'] is None:
                            e['params'] = params_of(
                                c.eio.connect_calls[e.pop('_n0')],
                                connects_sent(), auth)
                    if state.get('late_reset'):
                        c.eio._reset()      # engine.io's clean-up, at last
                        state['late_reset'] = False
            c.connect = sio_connect
            n_ev = len(events)
            try:
                task.run()
            finally:
                c.eio.connect = orig_connect
                c.connect = orig_sio_connect
                w.connect_outcomes = []
                if state.get('late_reset'):
                    c.eio._reset()
                    state['late_reset'] = False
            last = ([e for e in events[n_ev:]
                     if e['ev'] in ('Attempt', 'Backoff')] or
                    [{'ev': 'none'}])[-1]
            if last['ev'] == 'Backoff' and last['answer'] == 'abort':
                how = 'aborted'
            elif last['ev'] == 'Attempt' and last['outcome'] == 'ok':
                events.append({'ev': 'Handlers', 'n': len(handlers)})
                how = 'success'
            else:
                how = 'gaveup'
            events.append({'ev': 'End', 'how': how})
            return how

        try:
            task = lose(sc.cause)
            how = None
            if task is not None:
                how = run_effort(task)
            if sc.then == 'lose_again' and how == 'success':
                pattern[:] = [('timeout', 'ok')]
                t2 = lose('transport_error')
                if t2 is not None:
                    run_effort(t2)
            elif sc.then == 'reconnect_manually' and how in ('gaveup',
                                                             'aborted'):
                app_connect()
                pattern[:] = [('timeout', 'ok')]
                t2 = lose('transport_error')
                if t2 is not None:
                    run_effort(t2)
        except Runaway:
            for e in events:
                e.pop('_n0', None)
                if e.get('ev') == 'Attempt' and e['params'] is None:
                    e['params'] = ['?', '?', '?', '?', '?']
            events.append({'ev': 'Runaway'})
    finally:
        fakeeio.ScriptedEvent.wait = orig_wait
    return events


def run_async(sc):
    loop = vloop.new_loop()
    w = fakeeio.World()
    cfg = sc.cfg
    c = fakeeio.make_client(
        w, asyncio_based=True, reconnection=cfg['reconnection'],
        reconnection_attempts=cfg['attempts'],
        reconnection_delay=cfg['delay'] / 1000.0,
        reconnection_delay_max=cfg['max'] / 1000.0,
        randomization_factor=cfg['rf'] / 1000.0)
    events = [{'ev': 'Config', 'cfg': dict(cfg)}]
    handlers = []
    for ns in NSS:
        async def h(ns=ns):
            handlers.append(ns)
        c.on('connect', h, namespace=ns)
    pattern = list(sc.pattern)
    state = {'outcome': 'ok', 't0': 0.0, 'step': None}
    auth = RefreshingAuth() if sc.cfg.get('auth_callable') else AUTH

    def connects_sent():
        out = []
        for p in refcodec.read_frames([f for f in c.eio.sent
                                       if f != '<CLOSE>']):
            if p['type'] == 0:
                out.append((p['ns'], p['data']))
        return out

    async def server_replies():
        for i, ns in enumerate(NSS):
            if state['outcome'] == 'nsrefused' and i == 1:
                f = refcodec.ref_encode(4, ns, None, {'message': 'no'})[0]
            else:
                f = refcodec.ref_encode(0, ns, None, {'sid': 'S' + ns})[0]
            await c.eio.deliver(f)
    w.on_connected = lambda: (asyncio.ensure_future(server_replies()),
                              None)[1]

    async def main():
        async def app_connect():
            state['outcome'] = 'ok'
            del c.eio.sent[:]
            n0 = len(c.eio.connect_calls)
            try:
                await c.connect(URL, headers=HEADERS, auth=auth,
                                transports=TRANSPORTS, namespaces=NSS)
                ok = True
            except Exception:
                ok = False
            events.append({'ev': 'Connect', 'ok': ok, 'nns': len(NSS),
                           'params': params_of(c.eio.connect_calls[n0],
                                               connects_sent(), auth)
                           if len(c.eio.connect_calls) > n0
                           else ['?no-attempt'] * 5})
        await app_connect()

        async def lose(cause):
            had = c._reconnect_task
            if cause == 'transport_error' and pattern and \
                    pattern[0][1] == 'notreset':
                await c.eio._atrigger('disconnect',
                                      c.eio.reason.TRANSPORT_ERROR)
                state['late_reset'] = True
            elif cause == 'transport_error':
                await c.eio.transport_error()
            elif cause == 'client_disconnect':
                await c.disconnect()
            elif cause == 'server_close':
                await c.eio.server_close()
            else:
                for ns in NSS:
                    await c.eio.deliver(refcodec.ref_encode(1, ns)[0])
            task = c._reconnect_task
            started = task is not None and task is not had
            events.append({'ev': 'Lose', 'cause': cause, 'started': started})
            return task if started else None

        async def run_effort(task):
            orig_connect = c.eio.connect
            t = {'t0': loop.time()}

            def next_step():
                state['step'] = pattern.pop(0) if pattern else ('abort', None)
                if state['step'][0] == 'timeout':
                    state['outcome'] = state['step'][1]
                    w.connect_outcomes = [
                        'fail' if state['outcome'] == 'eiofail' else 'ok']
            next_step()

            async def connect(*a, **k):
                if len(events) > LIMIT:
                    raise Runaway()
                # the back-off that just ended
                events.append({'ev': 'Backoff',
                               'd': ms(loop.time() - t['t0']),
                               'answer': 'timeout'})
                del c.eio.sent[:]
                del handlers[:]
                n0 = len(c.eio.connect_calls)
                try:
                    return await orig_connect(*a, **k)
                finally:
                    if len(c.eio.connect_calls) == n0:
                        c.eio.connect_calls.append({
                            'url': a[0] if a else k.get('url'),
                            'headers': k.get('headers'),
                            'transports': k.get('transports'),
                            'path': k.get('engineio_path')})
                    events.append({'ev': 'Attempt',
                                   'outcome': state['outcome'],
                                   'params': None, '_n0': n0})
            c.eio.connect = connect
            orig_sio_connect = c.connect

            async def sio_connect(*a, **k):
                try:
                    return await orig_sio_connect(*a, **k)
                finally:
                    for e in events:
                        if e.get('ev') == 'Attempt' and e['params'] is None:
                            e['params'] = params_of(
                                c.eio.connect_calls[e.pop('_n0')],
                                connects_sent(), auth)
                    if state.get('late_reset'):
                        c.eio._reset()
                        state['late_reset'] = False
                    t['t0'] = loop.time()
                    next_step()
                    if state['step'][0] == 'abort':
                        asyncio.ensure_future(aborter())
            c.connect = sio_connect

            async def aborter():
                # shutdown() a little into the back-off
                await asyncio.sleep(0.001)
                events.append({'ev': 'Backoff',
                               'd': ms(loop.time() - t['t0']),
                               'answer': 'abort'})
                events.append({'ev': 'Shutdown'})
                await c.shutdown()
            if state['step'][0] == 'abort':
                asyncio.ensure_future(aborter())
            n_ev = len(events)
            try:
                await task
            finally:
                c.eio.connect = orig_connect
                c.connect = orig_sio_connect
                w.connect_outcomes = []
                if state.get('late_reset'):
                    c.eio._reset()
                    state['late_reset'] = False
            await asyncio.sleep(0)
            last = ([e for e in events[n_ev:]
                     if e['ev'] in ('Attempt', 'Backoff')] or
                    [{'ev': 'none'}])[-1]
            if last['ev'] == 'Backoff' and last['answer'] == 'abort':
                how = 'aborted'
            elif last['ev'] == 'Attempt' and last['outcome'] == 'ok':
                events.append({'ev': 'Handlers', 'n': len(handlers)})
                how = 'success'
            else:
                how = 'gaveup'
            events.append({'ev': 'End', 'how': how})
            return how

        task = await lose(sc.cause)
        how = None
        if task is not None:
            how = await run_effort(task)
        if sc.then == 'lose_again' and how == 'success':
            pattern[:] = [('timeout', 'ok')]
            t2 = await lose('transport_error')
            if t2 is not None:
                await run_effort(t2)
        elif sc.then == 'reconnect_manually' and how in ('gaveup',
                                                         'aborted'):
            await app_connect()
            pattern[:] = [('timeout', 'ok')]
            t2 = await lose('transport_error')
            if t2 is not None:
                await run_effort(t2)
    try:
        try:
            loop.run_until_complete(main())
        except Runaway:
            for e in events:
                e.pop('_n0', None)
                if e.get('ev') == 'Attempt' and e['params'] is None:
                    e['params'] = ['?', '?', '?', '?', '?']
            events.append({'ev': 'Runaway'})
        pend = [t for t in asyncio.all_tasks(loop) if not t.done()]
        for t in pend:
            t.cancel()
        if pend:
            loop.run_until_complete(asyncio.gather(*pend,
                                                   return_exceptions=True))
    finally:
        loop.close()
    return events


def scenarios(tier, rng):
    grid = []
    delays = [500, 1000, 2000]
    maxes = [1000, 5000]
    rfs = [0, 500]
    attempts = [0, 1, 3]
    combos = list(itertools.product(delays, maxes, rfs, attempts))
    fail = ['eiofail', 'nsrefused']
    out = []
    for d, m, r, n in combos:
        for rec in (True, False):
            cfg = {'delay': d, 'max': m, 'rf': r, 'attempts': n,
                   'reconnection': rec,
                   # (a third of the grid hands auth over as a callable
                   # whose answer changes with every call)
                   'auth_callable': d == 1000}
            for cause in ('transport_error', 'client_disconnect',
                          'server_disconnect', 'server_close'):
                if cause != 'transport_error' or not rec:
                    out.append(Scenario(cfg, cause, []))
                    continue
                maxlen = 3 if tier == 'quick' else 6
                pats = []
                for L in range(0, maxlen + 1):
                    for fs in itertools.product(fail, repeat=L):
                        base = [('timeout', f) for f in fs]
                        pats.append(base + [('timeout', 'ok')])
                        pats.append(base + [('abort', None)])
                        if L == maxlen:
                            pats.append(base)
                # ... and efforts whose first back-off ends before engine.io
                # has cleaned up after the loss (that attempt is refused at
                # once and counts as a failed attempt)
                pats += [[('timeout', 'notreset'), ('timeout', 'ok')],
                         [('timeout', 'notreset'), ('timeout', 'eiofail'),
                          ('timeout', 'ok')],
                         [('timeout', 'notreset'), ('abort', None)],
                         [('timeout', 'notreset')]]
                for p in pats:
                    out.append(Scenario(cfg, cause, p,
                                        then=rng.choice(
                                            [None, 'lose_again',
                                             'reconnect_manually'])))
    return out


def run(pid, tier):
    v = common.Verdict(pid, tier)
    rng = random.Random(common.seed())
    wd = os.path.join(common.WORK, pid)
    os.makedirs(wd, exist_ok=True)
    known = common.known_for(pid)
    dev = '{' + ', '.join('"%s"' % k['deviation'] for k in known) + '}'
    # G1: the machine itself (the design: no deviation)
    cfgt = ('INIT Init\nNEXT Next\nCONSTANTS Dev = {}\nDelays = {500, 1000}\n'
            'Maxes = {1000, 5000}\nRfs = {0, 500}\nAttemptBounds = {0, 1, 3}\n'
            'MaxSteps = %d\n' % (8 if tier == 'quick' else 11) +
            ''.join('INVARIANT %s\n' % i for i in
                    ['OneEffort', 'EffortOnlyAfterAccident', 'AttemptBound',
                     'NoWaitedOutsideEffort', 'AccidentStartsEffort']))
    r1 = tlc.run_tlc(os.path.join(wd, 'g1'), 'Reconnect', cfgt, workers=8)
    v.log('  G1 Reconnect machine: %d states, %s' % (
        r1.distinct, 'ok' if r1.ok else r1.violation or r1.error))
    if r1.error:
        v.error('TLC: ' + r1.error)
    elif not r1.ok:
        v.violation('Reconnect.tla violates ' + str(r1.violation),
                    {'tlc': r1.out[-3000:]})
    # G2: recorded executions
    scs = scenarios(tier, rng)
    edges = []
    out = [[]]
    samples = []
    index = []
    nn = 1
    for impl, fn in (('Client', run_sync), ('AsyncClient', run_async)):
        for sc in scs:
            evs = fn(sc)
            for e in evs:
                e.pop('_n0', None)
                if e.get('params') is None and 'params' in e:
                    e['params'] = []
            cur = 1
            for e in evs:
                nn += 1
                out.append([])
                edges.append({'dst': nn, 'e': e})
                out[cur - 1].append(len(edges))
                index.append((impl, sc, e))
                cur = nn
            if len(samples) < 3 and len(evs) > 6:
                samples.append({'impl': impl, 'scenario': json.loads(sc.key()),
                                'events': evs})
    gf = os.path.join(wd, 'traces.json')
    with open(gf, 'w') as f:
        json.dump({'out': out, 'edges': edges}, f)
    cfg2 = ('INIT GInit\nNEXT GNext\nCONSTANTS Dev = ' + dev +
            '\nDelays = {}\nMaxes = {}\n'
            'Rfs = {}\nAttemptBounds = {}\nMaxSteps = 0\n'
            'INVARIANT AllEventsOK\nINVARIANT OneEffort\n'
            'INVARIANT AttemptBound\nINVARIANT EffortOnlyAfterAccident\n')
    r2 = tlc.run_tlc(os.path.join(wd, 'g2'), 'ReconnectTraces', cfg2,
                     env={'GRAPH_FILE': gf}, workers=4)
    v.log('  G2 %d scenarios x 2 classes, %d events: %s' % (
        len(scs), len(edges), 'ok' if r2.ok else r2.violation or r2.error))
    if r2.error:
        v.error('TLC: ' + r2.error)
    elif not r2.ok:
        import re
        rej = [p for p in r2.prints if 'EVENT_REJECTED' in p]
        rep = {'verdict': rej[0] if rej else str(r2.violation)}
        if rej:
            i = int(re.search(r'"EVENT_REJECTED", (\d+)', rej[0]).group(1))
            impl, sc, e = index[i - 1]
            rep.update({'impl': impl, 'scenario': json.loads(sc.key()),
                        'event': e})
        v.violation('recorded execution is not a behaviour of Reconnect.tla: '
                    + rep['verdict'][:1500], rep)
    if r2.ok and known:
        # is the known finding still observable in the recorded executions?
        rw = tlc.run_tlc(os.path.join(wd, 'gw'), 'ReconnectTraces',
                         cfg2.replace('INVARIANT AllEventsOK',
                                      'INVARIANT D8_NotObservable'),
                         env={'GRAPH_FILE': gf}, workers=4)
        if rw.violation == 'D8_NotObservable':
            for k in known:
                v.known_finding(k['text'])
        else:
            v.log('  note: known finding D8 no longer observable')
    elif not r2.ok and known:
        # maybe the code was repaired: try the design
        r2b = tlc.run_tlc(os.path.join(wd, 'g2b'), 'ReconnectTraces',
                          cfg2.replace('Dev = ' + dev, 'Dev = {}'),
                          env={'GRAPH_FILE': gf}, workers=4)
        if r2b.ok:
            v.log('  note: the code matches the design without D8')
            v.violations.pop()
    v.cov.update({
        'states': max(1, r1.distinct), 'transitions': max(1, r1.generated),
        'traces_validated_against_impl': 2 * len(scs) if r2.ok else 0,
        'samples': samples, 'evaluations': len(edges),
        'distinct_nontrivial': len({s.key() for s in scs
                                    if len(s.pattern) > 0}),
        'exhaustive': tier == 'thorough',
        'rule': 'parameter grid x 4 causes of loss x failure patterns of the '
                'successive attempts (transport failure / namespace refusal) '
                'x abort position x what follows (second loss, manual '
                'reconnect); non-trivial = an effort with at least one wait'})
    v.assumptions = ['FakeEio models engineio.Client (EioClient.tla)',
                     'virtual-time loop for asyncio', 'TLC']
    return v.finish()
