"""Exhaustive exploration of the REAL implementation's transition graph
(leg G2/G3): from every reachable abstract state apply every enabled action
of the alphabet; states are re-created by replaying the BFS-tree path on a
fresh object."""
import json
import multiprocessing as mp
import os
import time

_AD = None
_ALPHA = None
_ENABLED = None


class Nondeterminism(Exception):
    """Two replays of the same history on fresh objects ended in different
    abstract states."""

    def __init__(self, node, path, first, second):
        super().__init__('replays of node %d differ' % node)
        self.node, self.path, self.first, self.second = \
            node, path, first, second


def canon(x):
    return json.dumps(x, sort_keys=True, separators=(',', ':'))


def _init(factory, alphabet, enabled):
    global _AD, _ALPHA, _ENABLED
    # a worker drives the implementation with hostile input too (attachment
    # counts of 10^9 ...): if the implementation reserves memory in proportion
    # to a declared number, the allocation fails here instead of taking the
    # machine down, and shows as an exception the specification does not have
    try:
        import resource
        # (3 GB on top of what the forked worker starts with: the parent's
        # address space grows with the number of configurations it has run)
        cur = 0
        with open('/proc/self/statm') as f:
            cur = int(f.read().split()[0]) * resource.getpagesize()
        lim = cur + (3 << 30)
        resource.setrlimit(resource.RLIMIT_AS, (lim, lim))
    except Exception:
        pass
    _AD = factory()
    _ALPHA = alphabet
    _ENABLED = enabled


def _expand(task):
    """task = (node id, path (list of action indices), expected state key).
    Returns list of (action index, out, state)."""
    nid, path, key = task
    res = []
    first = True
    known = json.loads(key)
    for ai, a in enumerate(_ALPHA):
        # the state is a function of the path (checked on the first replay),
        # so a disabled action needs no replay
        if not first and not _ENABLED(known, a):
            continue
        _AD.reset()
        for pi in path:
            _AD.apply(_ALPHA[pi])
        st = _AD.project()
        if first:
            first = False
            if canon(st) != key:
                return ('NONDET', nid, st)
        elif canon(st) != key:
            return ('NONDET', nid, st)
        if not _ENABLED(st, a):
            continue
        out = _AD.apply(a)
        res.append((ai, out, _AD.project()))
    return ('OK', nid, res)


def explore(factory, alphabet, enabled, workers=None, max_states=200000,
            log=None, partial_ok=False):
    """Returns graph dict: nodes, out, edges (1-based ids for TLA+), paths."""
    t0 = time.time()
    workers = workers or min(16, os.cpu_count() or 1)
    ad = factory()
    ad.reset()
    init = ad.project()
    if hasattr(ad, 'close'):
        ad.close()         # no live harness threads while the pool forks
    nodes = [init]
    index = {canon(init): 0}
    paths = [[]]
    out = [[]]
    edges = []
    frontier = [0]
    ctx = mp.get_context('fork')
    depth = 0
    # (a ProcessPoolExecutor, not a multiprocessing.Pool: if a worker dies -
    # out of memory, killed - the map raises instead of waiting forever)
    import concurrent.futures as cf
    with cf.ProcessPoolExecutor(workers, mp_context=ctx, initializer=_init,
                                initargs=(factory, alphabet,
                                          enabled)) as pool:
        while frontier:
            tasks = [(n, paths[n], canon(nodes[n])) for n in frontier]
            nxt = []
            chunk = max(1, len(tasks) // (workers * 4))
            for status, nid, res in pool.map(_expand, tasks, chunksize=chunk):
                if status == 'NONDET':
                    raise Nondeterminism(
                        nid + 1, [alphabet[i] for i in paths[nid]],
                        nodes[nid], res)
                for ai, o, st in res:
                    k = canon(st)
                    j = index.get(k)
                    if j is None:
                        j = len(nodes)
                        index[k] = j
                        nodes.append(st)
                        paths.append(paths[nid] + [ai])
                        out.append([])
                        nxt.append(j)
                        if len(nodes) > max_states:
                            if partial_ok:
                                edges.append({'src': nid + 1, 'dst': j + 1,
                                              'a': alphabet[ai],
                                              'ai': ai + 1, 'out': o})
                                out[nid].append(len(edges))
                                pool.shutdown(wait=False, cancel_futures=True)
                                return {'nodes': nodes, 'out': out,
                                        'edges': edges, 'paths': paths,
                                        'depth': depth, 'partial': True,
                                        'wall': time.time() - t0}
                            raise RuntimeError('state budget exceeded')
                    edges.append({'src': nid + 1, 'dst': j + 1,
                                  'a': alphabet[ai], 'ai': ai + 1, 'out': o})
                    out[nid].append(len(edges))
            depth += 1
            if log:
                log('  depth %d: %d states, %d edges, %.1fs'
                    % (depth, len(nodes), len(edges), time.time() - t0))
            frontier = nxt
    return {'nodes': nodes, 'out': out, 'edges': edges,
            'paths': paths, 'depth': depth, 'wall': time.time() - t0}


def path_actions(graph, alphabet, node_1based):
    return [alphabet[i] for i in graph['paths'][node_1based - 1]]


# ------------------------------------------------------------ random walks
def _walk(task):
    """One seeded random history on a fresh object."""
    import random
    seed, length = task
    rng = random.Random(seed)
    _AD.reset()
    st = _AD.project()
    steps = []
    for _ in range(length):
        en = [i for i, a in enumerate(_ALPHA) if _ENABLED(st, a)]
        if not en:
            break
        ai = rng.choice(en)
        out = _AD.apply(_ALPHA[ai])
        st2 = _AD.project()
        steps.append((ai, out, st2))
        st = st2
    return steps


def random_walks(factory, alphabet, enabled, n, length, seed, workers=None):
    """A forest of n random histories (scope beyond the exhaustive bound):
    same graph format, every walk is a path from node 1."""
    import concurrent.futures as cf
    t0 = time.time()
    workers = workers or min(12, os.cpu_count() or 1)
    ad = factory()
    ad.reset()
    init = ad.project()
    if hasattr(ad, 'close'):
        ad.close()
    nodes = [init]
    out = [[]]
    edges = []
    ctx = mp.get_context('fork')
    with cf.ProcessPoolExecutor(workers, mp_context=ctx, initializer=_init,
                                initargs=(factory, alphabet,
                                          enabled)) as pool:
        tasks = [(seed * 1000003 + k, length) for k in range(n)]
        for steps in pool.map(_walk, tasks, chunksize=max(1, n // (workers * 4))):
            cur = 0
            for ai, o, st in steps:
                nodes.append(st)
                out.append([])
                edges.append({'src': cur + 1, 'dst': len(nodes),
                              'a': alphabet[ai], 'ai': ai + 1, 'out': o})
                out[cur].append(len(edges))
                cur = len(nodes) - 1
    return {'nodes': nodes, 'out': out, 'edges': edges, 'walks': n,
            'wall': time.time() - t0}
