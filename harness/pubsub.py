"""Cluster substrate and adapter for spec/PubSub.tla (C07, C15): N real
socketio servers (threaded or asyncio), each with its real engineio server
and a PubSubManager / AsyncPubSubManager whose backend is an in-memory
channel owned by the harness:

  _publish(msg)  appends pickle.dumps(msg) to the shared channel (what the
                 bundled backends put on the wire);
  _listen()      a generator that blocks until the harness hands it the next
                 channel element; the library's own _thread() loop runs in a
                 real thread / task, one element per harness step.

A step "Consume(h)" gives host h's listener the element at its cursor and
waits until the loop is back in _listen() (or found dead).
"""
import asyncio
import functools
import json
import pickle
import queue
import threading

import socketio
from socketio.async_pubsub_manager import AsyncPubSubManager

from . import srv, srv_alpha, vloop
from .srv import Boom
from .tokens import val, tok, toks

FOREIGN = 'hx'       # a host outside the modelled cluster


class _Stop:
    pass


class _Fault:
    """The backend's iterator raises instead of yielding."""


STOP = _Stop()


class _ThreadedBackend(socketio.PubSubManager):
    name = 'harness'

    def __init__(self, cluster, hname, **kw):
        super().__init__(**kw)
        self.cluster = cluster
        self.hname = hname
        self.inbox = queue.Queue()
        self.ready = threading.Semaphore(0)

    def _publish(self, data):
        self.cluster.publish(pickle.dumps(data))

    def _listen(self):
        while True:
            self.ready.release()
            item = self.inbox.get()
            if item is STOP:
                return
            if isinstance(item, _Fault):
                raise RuntimeError('backend connection lost')
            yield item


class _AsyncBackend(AsyncPubSubManager):
    name = 'aharness'

    def __init__(self, cluster, hname, **kw):
        super().__init__(**kw)
        self.cluster = cluster
        self.hname = hname
        self.inbox = None
        self.ready = None

    async def _publish(self, data):
        self.cluster.publish(pickle.dumps(data))

    async def _listen(self):
        while True:
            self.ready.set()
            item = await self.inbox.get()
            if item is STOP:
                return
            if isinstance(item, _Fault):
                raise RuntimeError('backend connection lost')
            yield item


class HostAdapter(srv.SrvAdapter):
    """One member of the cluster."""

    def __init__(self, cfg, cluster, hname, loop, daemon):
        self.cluster = cluster
        self.hname = hname
        self.listener_alive = True
        self.mgr = None
        super().__init__(cfg, loop=loop, daemon=daemon)

    def _extra_server_kw(self):
        cls = _AsyncBackend if self.is_async else _ThreadedBackend
        self.mgr = cls(self.cluster, self.hname)
        return {'client_manager': self.mgr}

    def reset(self):
        if getattr(self, 'mgr', None) is not None:
            self.stop()
        self.listener_alive = True
        super().reset()
        sio = self.sio
        sio.manager_initialized = True
        if self.is_async:
            async def init():
                self.mgr.inbox = asyncio.Queue()
                self.mgr.ready = asyncio.Event()
                sio.manager.initialize()
                self.daemon.add(self.mgr.thread)
                await self.mgr.ready.wait()
            self.loop.run_until_complete(init())
        else:
            saved = sio.eio.start_background_task

            def daemon_start(target, *a, **k):
                th = threading.Thread(target=target, args=a, kwargs=k,
                                      daemon=True)
                th.start()
                return th
            sio.eio.start_background_task = daemon_start
            sio.manager.initialize()
            sio.eio.start_background_task = saved
            self.mgr.ready.acquire()
        del self.tap.seen[:]

    def stop(self):
        try:
            if self.is_async:
                self.mgr.inbox.put_nowait(STOP)

                async def fin():
                    try:
                        await asyncio.wait_for(self.mgr.thread, 5)
                    except Exception:
                        pass
                self.loop.run_until_complete(fin())
                self.daemon.discard(self.mgr.thread)
            else:
                if self.mgr.thread.is_alive():
                    self.mgr.inbox.put(STOP)
                    self.mgr.thread.join(5)
        except Exception:
            pass

    def _deliver(self, item):
        """One turn of the listener loop."""
        if not self.listener_alive:
            return
        if self.is_async:
            self.mgr.ready.clear()
            self.mgr.inbox.put_nowait(item)

            async def turn():
                await self.mgr.ready.wait()
            try:
                self._run(turn())
            except vloop.Deadlock:
                self.listener_alive = False
        else:
            self.mgr.inbox.put(item)
            # back in _listen() - or dead (noticed at once, not after a
            # time-out: a broken tree would otherwise cost seconds per step)
            for _ in range(500):
                if self.mgr.ready.acquire(timeout=0.01):
                    break
                if not self.mgr.thread.is_alive():
                    self.listener_alive = False
                    break
            else:
                self.listener_alive = False

    def _extra_act(self, a):
        if a['act'] == 'Consume':
            self._deliver(a['_item'])
            return True
        return False

    def _harness_objects(self):
        return (self.cluster,)

    def _cb_tok(self, v):
        if isinstance(v, functools.partial) and \
                getattr(v.func, '__name__', '') == '_return_callback':
            host_id, room, ns, cid = v.args
            return 'ret|%s|%s|%s|%d' % (self.cluster.host_name(host_id),
                                        self._room_tok(room), ns, cid)
        return getattr(v, 'tag', 'call')

    def _cb_next(self, real_sid, name, d):
        c = getattr(self.sio.manager, 'ack_counters', {}).get(real_sid)
        if c is not None:
            r = repr(c)          # 'count(3)': the value it yields next
            if r.startswith('count(') and r[6:-1].isdigit():
                return int(r[6:-1])
        return super()._cb_next(real_sid, name, d)


# junk that may appear on the channel, by the class the reference reading
# gives it (see PubSub.tla, Consume)
def _junk(variant, cluster):
    p = pickle.dumps
    table = {
        # ---- skip: not a message; nothing happens
        'garbage': b'\x00\xffgarbage',
        'pnone': p(None), 'pempty': p(''), 'pstr': p('emit'),
        'plist': p(['emit', 1]), 'pdict0': p({}), 'pzero': p(0),
        'nomethod': p({'event': 'msg', 'data': 'v1', 'namespace': '/'}),
        'unknown': p({'method': 'frobnicate', 'host_id': FOREIGN}),
        'jsondict': '{"event": "msg"}', 'jsonlist': '[1, 2]',
        'text': 'certainly not json', 'dictobj': {'no': 'method'},
        'nsint': p({'method': 'emit', 'event': 'msg', 'data': 'v1',
                    'namespace': 5, 'host_id': FOREIGN}),
        'cbnofields': p({'method': 'callback',
                         'host_id': cluster.real_host_id('h1')}),
        'surplus': p({'method': 'close_room', 'room': 'nobody-is-here',
                      'namespace': '/zzz', 'host_id': FOREIGN,
                      'extra': [1, 2, 3], 'more': {'a': b'\x00'}}),
        'discnone': p({'method': 'disconnect', 'host_id': FOREIGN}),
        'enternone': p({'method': 'enter_room', 'host_id': FOREIGN}),
        # ---- restart: the loop's own test raises; the loop is re-entered
        'pint': p(5), 'pfloat': p(2.5), 'ptrue': p(True), 'json7': '7',
        'pobj': p(Boom('x')),
        # ('method' in x) holds, x['method'] raises before the inner handler
        'pstrm': p('the method'), 'plistm': p(['method', 1]),
        'jsonlistm': '["method"]',
        # ---- raise: a known method whose processing raises
        'emitnoevent': p({'method': 'emit', 'host_id': FOREIGN}),
        'emitnodata': p({'method': 'emit', 'event': 'msg',
                         'host_id': FOREIGN}),
        'cbargsint': None,    # built below (needs a live callback id)
    }
    return table[variant]


JUNK_CLASS = {}
for _v in ('garbage', 'pnone', 'pempty', 'pstr', 'plist', 'pdict0', 'pzero',
           'nomethod', 'unknown', 'jsondict', 'jsonlist', 'text', 'dictobj',
           'nsint', 'cbnofields', 'surplus', 'discnone', 'enternone'):
    JUNK_CLASS[_v] = 'skip'
for _v in ('pint', 'pfloat', 'ptrue', 'json7', 'pobj', 'pstrm', 'plistm',
           'jsonlistm'):
    JUNK_CLASS[_v] = 'restart'
for _v in ('emitnoevent', 'emitnodata'):
    JUNK_CLASS[_v] = 'raise'


class PubSubAdapter:
    """cfg keys: hosts, host_of {t: h}, write_only, max_chan, immediate and
    the SrvAdapter keys (transports = every transport of the cluster)."""

    def __init__(self, cfg):
        self.cfg = cfg
        self.is_async = bool(cfg.get('asyncio'))
        self.loop = vloop.new_loop() if self.is_async else None
        self.daemon = set()
        self.hosts = {}
        self.reset()

    # ------------------------------------------------------------ channel
    def publish(self, raw):
        self.chan.append((raw, None))

    def host_name(self, host_id):
        for h, ad in self.hosts.items():
            if ad.mgr.host_id == host_id:
                return h
        if self.w is not None and self.w.host_id == host_id:
            return 'w'
        if host_id == FOREIGN:
            return FOREIGN
        return '?' + str(host_id)[:8]

    def real_host_id(self, h):
        if h == 'w':
            return self.w.host_id
        if h in self.hosts:
            return self.hosts[h].mgr.host_id
        return FOREIGN

    def reset(self):
        cfg = self.cfg
        self.chan = []
        self.pos = {h: 0 for h in cfg['hosts']}
        self.names = {}
        self.rnames = {}
        self.cb_raise = False
        self.w = None
        for h in cfg['hosts']:
            if h in self.hosts:
                self.hosts[h].reset()      # one log tap per host, reused
            else:
                self.hosts[h] = HostAdapter(cfg, self, h, self.loop,
                                            self.daemon)
            self.hosts[h].names = self.names
            self.hosts[h].rnames = self.rnames
        if cfg.get('write_only'):
            if self.is_async:
                class W(AsyncPubSubManager):
                    async def _publish(me, data):
                        self.publish(pickle.dumps(data))
            else:
                class W(socketio.PubSubManager):
                    def _publish(me, data):
                        self.publish(pickle.dumps(data))
            self.w = W(write_only=True)

    def close(self):
        for ad in self.hosts.values():
            ad.stop()

    # ------------------------------------------------------------- actions
    def _gc(self):
        k = min(self.pos.values())
        if k:
            del self.chan[:k]
            for h in self.pos:
                self.pos[h] -= k

    def _forge(self, msg):
        """Spec message record -> what would be on the wire."""
        m = msg['method']
        if m == 'junk':
            return _junk(msg['v'], self)
        if m == 'fault':
            return _Fault()
        h0 = next(iter(self.hosts.values()))
        d = {'method': m, 'host_id': self.real_host_id(msg['host'])}
        if msg['host'] == 'nobody':        # addressed to no server at all
            d['host_id'] = None
        elif msg['host'] == 'absent':
            del d['host_id']
        if m == 'callback':
            d.update(sid=h0._room(msg['sid']), namespace=msg['ns'],
                     id=msg['id'], args=tuple(val(x) for x in msg['args']))
        elif m == 'emit':
            d.update(event=msg['ev'], data=h0._emit_data(msg),
                     namespace=msg['ns'],
                     room=h0._to(msg['toKind'], msg['to']),
                     skip_sid=h0._skip(msg['skipKind'], msg['skip']),
                     callback=None)
        elif m == 'disconnect':
            d.update(sid=h0._real_sid(msg['sid']), namespace=msg['ns'])
        elif m in ('enter_room', 'leave_room'):
            d.update(sid=h0._real_sid(msg['sid']), room=h0._room(msg['room']),
                     namespace=msg['ns'])
        elif m == 'close_room':
            d.update(room=h0._room(msg['room']), namespace=msg['ns'])
        # the encodings a backend may hand to the listener
        enc = msg.get('enc', 'pickle')
        if enc == 'json':
            return json.dumps(d)
        if enc == 'jsonbytes':
            return json.dumps(d).encode()
        if enc == 'dict':
            return d
        return pickle.dumps(d)

    def apply(self, a):
        act = a['act']
        for ad in self.hosts.values():
            ad.hc = []
            ad.cbs = []
        if act == 'Arm':
            self.cb_raise = not self.cb_raise
            for ad in self.hosts.values():
                ad.flags['cbRaise'] = self.cb_raise
            return self._out({'pk': {}, 'hc': [], 'res': ['ok'], 'cbs': [],
                              'set': []})
        if act == 'ArmDisc':
            return self._out(self.hosts[a['h']].apply(dict(a, act='Arm')))
        if act == 'Inject':
            self.chan.append((self._forge(a['msg']), a['msg']))
            return self._out({'pk': {}, 'hc': [], 'res': ['ok'], 'cbs': [],
                              'set': []})
        if act == 'Emit' and a['h'] == 'w':
            return self._out(self._wemit(a))
        if act == 'JunkProbe':
            return self._junk_probe(a)
        host = self.hosts[a['h']]
        if act == 'Consume':
            raw, meta = self.chan[self.pos[a['h']]]
            out = host.apply(dict(a, _item=raw))
            self.pos[a['h']] += 1
            if meta and meta['method'] in ('junk', 'fault') and \
                    out['res'][0] == 'contained':
                out['res'] = ['contained', 'X']   # which exception: immaterial
        else:
            out = host.apply(a)
        return self._out(out, acting=host)

    def _junk_probe(self, a):
        """The junk element goes down the channel and every listener takes
        its turn on it; then the sentinel (a valid broadcast from a foreign
        host) must be applied by every listener."""
        res = ['ok']
        pk, hc, cbs = {}, [], []
        probe = {'method': 'emit', 'host': FOREIGN, 'ev': 'probe',
                 'data': 'v1', 'ns': '/', 'toKind': 'none', 'to': [],
                 'skipKind': 'none', 'skip': []}
        for msg in (a['msg'], probe):
            self.chan.append((self._forge(msg), msg))
            for h, host in self.hosts.items():
                raw, _ = self.chan[self.pos[h]]
                out = host.apply({'act': 'Consume', 'h': h, '_item': raw})
                self.pos[h] += 1
                if out['res'][0] != 'ok':
                    res = ['contained', 'X'] if msg is not probe \
                        else ['probe-' + out['res'][0]] + out['res'][1:]
                pk.update(out['pk'])
                hc += out['hc']
                cbs += out['cbs']
            self._gc()
        return {'pk': pk, 'hc': hc, 'res': res, 'cbs': cbs, 'set': []}

    def _wemit(self, a):
        h0 = next(iter(self.hosts.values()))
        kw = {}
        cbs = []
        if a['cb']:
            kw['callback'] = lambda *x: cbs.append(x)
        res = ['ok']
        try:
            r = self.w.emit(a['ev'], h0._emit_data(a), namespace=a['ns'],
                            room=h0._to(a['toKind'], a['to']),
                            skip_sid=h0._skip(a['skipKind'], a['skip']),
                            **kw)
            if self.is_async:
                self.loop.run_until_complete(r)
        except Exception as e:
            res = ['exc', type(e).__name__]
        return {'pk': {}, 'hc': [], 'res': res, 'cbs': [], 'set': []}

    def _out(self, out, acting=None):
        """Merge what every host observed during the step."""
        pk = dict(out['pk'])
        hc = list(out['hc'])
        cbs = list(out['cbs'])
        for ad in self.hosts.values():
            if ad is acting:
                continue
            pk.update(ad._drain())
            hc += ad.hc
            cbs += ad.cbs
        self._gc()
        return {'pk': pk, 'hc': hc, 'res': out['res'], 'cbs': cbs,
                'set': out['set']}

    # ---------------------------------------------------------- projection
    def _kind(self, x, f):
        if x is None:
            return 'none', []
        if isinstance(x, (list, tuple)):
            return 'list', [f(y) for y in x]
        return 'one', [f(x)]

    def _msg_tok(self, raw, meta):
        if meta is not None:
            return meta
        h0 = next(iter(self.hosts.values()))
        try:
            d = pickle.loads(raw)
            m = d['method']
            host = self.host_name(d['host_id'])
            if m == 'emit':
                tk, to = self._kind(d['room'], h0._room_tok)
                sk, skip = self._kind(d['skip_sid'], h0._name)
                data = d['data']
                if data is None:
                    dt = 'none'
                elif isinstance(data, tuple):
                    dt = 'tup2' if toks(data) == ['v1', 'v2'] else \
                        '?' + repr(data)[:30]
                else:
                    dt = tok(data)
                cb = d['callback']
                cbt = [] if cb is None else \
                    [h0._room_tok(cb[0]), cb[1], cb[2]]
                return {'method': m, 'host': host, 'ev': d['event'],
                        'data': dt, 'ns': d['namespace'], 'toKind': tk,
                        'to': to, 'skipKind': sk, 'skip': skip, 'cb': cbt}
            if m == 'disconnect':
                return {'method': m, 'host': host,
                        'sid': self._sid_tok(d['sid']), 'ns': d['namespace']}
            if m in ('enter_room', 'leave_room'):
                return {'method': m, 'host': host,
                        'sid': self._sid_tok(d['sid']),
                        'room': h0._room_tok(d['room']),
                        'ns': d['namespace']}
            if m == 'close_room':
                return {'method': m, 'host': host,
                        'room': h0._room_tok(d['room']),
                        'ns': d['namespace']}
            if m == 'callback':
                return {'method': m, 'host': host,
                        'sid': h0._room_tok(d['sid']), 'ns': d['namespace'],
                        'id': d['id'], 'args': toks(d['args'])}
            return {'method': '?' + str(m)}
        except Exception as e:
            return {'method': '?unreadable:' + type(e).__name__}

    def _sid_tok(self, sid):
        if sid in self.names:
            return self.names[sid]
        if isinstance(sid, str) and sid.startswith('unallocated-'):
            return sid[len('unallocated-'):]
        return '?' + repr(sid)[:20]

    def project(self):
        hs = {h: ad.project() for h, ad in self.hosts.items()}
        return {'hs': hs,
                'chan': [self._msg_tok(r, m) for r, m in self.chan],
                'pos': dict(self.pos),
                'alive': {h: bool(ad.listener_alive and (
                    ad.is_async and not ad.mgr.thread.done() or
                    not ad.is_async and ad.mgr.thread.is_alive()))
                    for h, ad in self.hosts.items()},
                'cbRaise': self.cb_raise}


# -------------------------------------------------------------- alphabets
mk = srv_alpha.mk
sid = srv_alpha.sid


def _hmk(act, h, **kw):
    a = mk(act, **kw)
    a['h'] = h
    return a


def cluster(cfg):
    H = cfg['hosts']
    host_of = cfg['host_of']
    A = []
    prev = {}
    for t in cfg['transports']:
        h = host_of[t]
        A.append(_hmk('EioOpen', h, t=t, after=prev.get(h, '')))
        prev[h] = t
    for t in cfg['transports']:
        h = host_of[t]
        if cfg.get('lost', True):
            A.append(_hmk('EioLost', h, t=t, reason='transport close'))
        for ns in cfg['ns_all']:
            A.append(_hmk('RxConnect', h, t=t, ns=ns, auth='absent'))
            if cfg.get('rxdisc', True):
                A.append(_hmk('RxDisconnect', h, t=t, ns=ns))
    S = [sid(i) for i in range(1, cfg['max_sid'] + 1)]
    emitters = list(H) + (['w'] if cfg.get('write_only') else [])
    for h in emitters:
        for ns in cfg['ns_api']:
            for tk, to in cfg['emit_to']:
                for sk, skip in cfg['emit_skip']:
                    A.append(_hmk('Emit', h, ns=ns, toKind=tk, to=to,
                                  skipKind=sk, skip=skip, ev='msg',
                                  data='v1', cb=''))
            for s in cfg.get('cb_to', []):
                A.append(_hmk('Emit', h, ns=ns, toKind='one', to=[s],
                              skipKind='none', skip=[], ev='msg', data='v1',
                              cb='c_' + h))
    for h in H:
        for ns in cfg['ns_api']:
            for s in S:
                for r in cfg['rooms']:
                    A.append(_hmk('EnterRoom', h, sid=s, room=r, ns=ns))
                    if cfg.get('leave', True):
                        A.append(_hmk('LeaveRoom', h, sid=s, room=r, ns=ns))
                if cfg.get('disc', True):
                    A.append(_hmk('Disconnect', h, sid=s, ns=ns))
                if cfg.get('rooms_q', True):
                    A.append(_hmk('Rooms', h, sid=s, ns=ns))
            for r in cfg['rooms']:
                if cfg.get('close', True):
                    A.append(_hmk('CloseRoom', h, room=r, ns=ns))
    for t in cfg['transports']:
        h = host_of[t]
        for ns in cfg['ns_api']:
            for id in cfg.get('ack_ids', []):
                for args in cfg.get('ack_args', [['v1']]):
                    A.append(_hmk('RxAck', h, t=t, ns=ns, id=id, args=args))
    for h in H:
        A.append({'act': 'Consume', 'h': h, 'live': False, 'need': 0})
    for m in cfg.get('inject', []):
        need = srv_alpha.need_of([v for v in m.values()
                                  if isinstance(v, str)])
        A.append({'act': 'Inject', 'h': '', 'live': False, 'need': need,
                  'msg': m})
    for v in cfg.get('junk', []):
        m = {'method': 'fault'} if v == 'fault' else junk_msg(v)
        A.append({'act': 'JunkProbe', 'h': '', 'live': False, 'need': 0,
                  'msg': m})
    if cfg.get('arm'):
        A.append({'act': 'Arm', 'h': '', 'live': False, 'need': 0})
    for h, ns in cfg.get('arm_disc', []):
        A.append({'act': 'ArmDisc', 'h': h, 'ns': ns, 'live': False,
                  'need': 0})
    return A


def enabled(cfg):
    en_host = srv_alpha.enabled(cfg)
    max_chan = cfg['max_chan']
    immediate = bool(cfg.get('immediate'))
    host_of = cfg['host_of']

    def en(c, a):
        act = a['act']
        h0 = c['hs'][cfg['hosts'][0]]
        if act == 'Consume':
            return c['pos'][a['h']] < len(c['chan']) and c['alive'][a['h']]
        if len(c['chan']) >= max_chan:
            return False
        if immediate and c['chan']:
            return False
        if act == 'JunkProbe':
            return not c['chan'] and all(c['alive'].values())
        if act in ('Arm', 'ArmDisc', 'Inject'):
            return h0['nextSid'] > a['need'] if act == 'Inject' else True
        if a['h'] == 'w':
            return h0['nextSid'] > a['need']
        if 't' in a and host_of[a['t']] != a['h']:
            return False
        return en_host(c['hs'][a['h']], a)
    return en


def junk_msg(v):
    return {'method': 'junk', 'class': JUNK_CLASS[v], 'v': v}


CONFIGS = {}

_BASE = dict(hosts=['h1', 'h2'], host_of={'t1': 'h1', 't2': 'h2'},
             transports=['t1', 't2'], ns_h=['/'], ns_all=['/'], ns_api=['/'],
             max_sid=2, max_ack=1, rooms=['r1'], alpha='cluster',
             emit_to=[('none', []), ('one', ['r1']), ('one', ['s1'])],
             emit_skip=[('none', []), ('one', ['s1'])],
             cb_to=[], ack_ids=[], max_chan=2, write_only=False)

# immediate delivery: exact equivalence with the single server
CONFIGS['ps_imm_quick'] = dict(_BASE, immediate=True, max_chan=1,
                               write_only=True)
CONFIGS['ps_imm_cb_quick'] = dict(_BASE, immediate=True, max_chan=1,
                                  write_only=True, cb_to=['s1', 's2'],
                                  ack_ids=[1, 2], rooms=[], emit_to=[],
                                  emit_skip=[], rooms_q=False, rxdisc=False,
                                  close=False, leave=False)
# delayed delivery, free interleaving of consumption and operations
CONFIGS['ps_delay_quick'] = dict(_BASE, immediate=False, max_chan=2,
                                 rooms_q=False, rxdisc=False, lost=False,
                                 disc=False, leave=False, close=False,
                                 emit_to=[('none', []), ('one', ['r1'])],
                                 emit_skip=[('none', [])])
CONFIGS['ps_delay_disc_quick'] = dict(_BASE, immediate=False, max_chan=2,
                                      rooms=[], rooms_q=False, rxdisc=False,
                                      emit_to=[('none', [])],
                                      emit_skip=[('none', [])])
CONFIGS['ps_delay_rooms_quick'] = dict(_BASE, immediate=False, max_chan=2,
                                       rooms_q=False, rxdisc=False,
                                       lost=False, disc=False,
                                       emit_to=[('one', ['r1'])],
                                       emit_skip=[('none', []),
                                                  ('one', ['s1'])])
# callbacks across hosts, delayed
CONFIGS['ps_cb_quick'] = dict(_BASE, immediate=False, max_chan=2,
                              rooms=[], emit_to=[], emit_skip=[],
                              cb_to=['s1', 's2'], ack_ids=[1, 2],
                              ack_args=[[], ['v1', 'v2']],
                              rooms_q=False, rxdisc=False, lost=False,
                              close=False, leave=False, disc=False)
# an acknowledgement on its way back while the issuing host disconnects the
# client (or the client goes away)
CONFIGS['ps_cb_disc_quick'] = dict(_BASE, immediate=False, max_chan=2,
                                   rooms=[], emit_to=[], emit_skip=[],
                                   cb_to=['s2'], ack_ids=[1],
                                   rooms_q=False, rxdisc=False, lost=True,
                                   close=False, leave=False, disc=True,
                                   max_sid=2)

# ---- C15: the listener survives anything
ALL_JUNK = sorted(JUNK_CLASS) + ['fault']
_CB = lambda host, sid, id: {'method': 'callback', 'host': host, 'sid': sid,
                             'ns': '/', 'id': id, 'args': ['v2']}
_LST = dict(_BASE, immediate=False, max_chan=2, rooms=[], rooms_q=False,
            rxdisc=False, lost=False, close=False, leave=False, disc=False,
            emit_to=[], emit_skip=[])
# every junk variant + the sentinel, in every quiet state of a small cluster
CONFIGS['ps_listener_junk_quick'] = dict(
    _LST, emit_to=[('none', [])], emit_skip=[('none', [])], junk=ALL_JUNK)
# forged / foreign / unknown `callback` messages, callbacks that raise
CONFIGS['ps_listener_cb_quick'] = dict(
    _LST, cb_to=['s2'], ack_ids=[1], arm=True, max_chan=1,
    inject=[_CB('hx', 's2', 1), _CB('h2', 's2', 1), _CB('h1', 's2', 9),
            _CB('h1', 's2', 1), _CB('nobody', 's2', 1),
            _CB('absent', 's2', 1)])
# ... and coroutine callbacks that end in CancelledError (asyncio only)
CONFIGS['ps_listener_cbcancel_quick'] = dict(
    CONFIGS['ps_listener_cb_quick'], cb_cancel=True, variants=('asyncio',))
# junk and backend failures interleaved with operations whose processing
# raises in the listener (disconnect handler raising: known finding D3)
CONFIGS['ps_listener_fault_quick'] = dict(
    _LST, disc=True, arm_disc=[('h2', '/')], dev=['D3'], max_sid=2,
    transports=['t2'], host_of={'t2': 'h2'},
    inject=[junk_msg('pint'), junk_msg('emitnoevent'), {'method': 'fault'},
            junk_msg('garbage')])
# a valid message from a foreign host in every encoding a backend may deliver
_FE = lambda enc: {'method': 'emit', 'host': FOREIGN, 'ev': 'msg',
                   'data': 'v1', 'ns': '/', 'toKind': 'none', 'to': [],
                   'skipKind': 'none', 'skip': [], 'cb': [], 'enc': enc}
CONFIGS['ps_listener_enc_quick'] = dict(
    _LST, max_chan=1,
    inject=[_FE('pickle'), _FE('json'), _FE('jsonbytes'), _FE('dict')])

# ---- thorough tier: three hosts, more clients, longer channel
_B3 = dict(_BASE, hosts=['h1', 'h2', 'h3'],
           host_of={'t1': 'h1', 't2': 'h2', 't3': 'h3'},
           transports=['t1', 't2', 't3'], max_sid=3)
CONFIGS['ps_imm3'] = dict(_B3, immediate=True, max_chan=1, write_only=True,
                          rooms_q=False, rxdisc=False,
                          emit_to=[('none', []), ('one', ['r1']),
                                   ('list', ['r1', 's1'])],
                          emit_skip=[('none', []), ('list', ['s1', 's2'])])
CONFIGS['ps_delay3'] = dict(_B3, immediate=False, max_chan=2, rooms_q=False,
                            rxdisc=False, lost=False, leave=False,
                            close=False, max_sid=2,
                            transports=['t1', 't3'],
                            host_of={'t1': 'h1', 't3': 'h3'},
                            emit_to=[('one', ['r1'])],
                            emit_skip=[('none', [])])
CONFIGS['ps_cb3'] = dict(_B3, immediate=False, max_chan=2, rooms=[],
                         emit_to=[], emit_skip=[], cb_to=['s1', 's2'],
                         ack_ids=[1, 2], rooms_q=False, rxdisc=False,
                         lost=False, close=False, leave=False, disc=False,
                         max_sid=2, transports=['t1', 't3'],
                         host_of={'t1': 'h1', 't3': 'h3'})
CONFIGS['ps_delay_chan3'] = dict(CONFIGS['ps_delay_quick'], max_chan=3)

# lists of rooms / session ids whose members live on different hosts
CONFIGS['ps_list_quick'] = dict(_BASE, immediate=True, max_chan=1,
                                rooms_q=False, rxdisc=False, lost=False,
                                disc=False, leave=False, close=False,
                                emit_to=[('list', ['r1', 's2']),
                                         ('list', ['s1', 's2']),
                                         ('list', ['s2', 'r1'])],
                                # (skip_sid as one id and as a list)
                                emit_skip=[('none', []), ('one', ['s2']),
                                           ('list', ['s2', 's1'])])

# larger scope, seeded random histories only
CONFIGS['ps_walk_big'] = dict(
    _BASE, hosts=['h1', 'h2', 'h3'],
    host_of={'t1': 'h1', 't2': 'h2', 't3': 'h3', 't4': 'h1'},
    transports=['t1', 't2', 't3', 't4'], ns_h=['/', '/a'],
    ns_all=['/', '/a'], ns_api=['/', '/a'], max_sid=6, max_ack=3,
    rooms=['r1', 'r2'], immediate=False, max_chan=5, write_only=True,
    emit_to=[('none', []), ('one', ['r1']), ('one', ['s2']),
             ('list', ['r1', 'r2']), ('list', ['s1', 's3', 'r2'])],
    emit_skip=[('none', []), ('one', ['s1']), ('list', ['s2', 's3'])],
    cb_to=['s1', 's2', 's3'], ack_ids=[1, 2, 3],
    ack_args=[[], ['v1'], ['v1', 'v2']])

# a client on another host entered into a client's personal (sid-named) room
CONFIGS['ps_sidroom_quick'] = dict(_BASE, immediate=True, max_chan=1,
                                   rooms=['s1'], rooms_q=False, rxdisc=False,
                                   lost=False, disc=False, close=False,
                                   emit_to=[('one', ['s1']),
                                            ('list', ['s1', 's2'])],
                                   emit_skip=[('none', []), ('one', ['s1'])])
CONFIGS['ps_sidroom_cb'] = dict(CONFIGS['ps_sidroom_quick'], cb_to=['s1'],
                                ack_ids=[1, 2])
