"""Alphabets for the SioClient configurations."""
import itertools

from .srv_alpha import EVS


def mk(act, **kw):
    a = {'act': act}
    a.update(kw)
    return a


def batches_for(nss):
    """Ways a conformant server can answer a connect(wait=True)."""
    out = [[]]                                   # silence: timeout
    if len(nss) == 1:
        n = nss[0]
        out += [[[{'k': 'ok', 'ns': n}]], [[{'k': 'err', 'ns': n}]]]
    else:
        a, b = nss
        ok = lambda n: {'k': 'ok', 'ns': n}      # noqa
        err = lambda n: {'k': 'err', 'ns': n}    # noqa
        out += [[[ok(a), ok(b)]], [[ok(b), ok(a)]], [[ok(a)], [ok(b)]],
                [[ok(b)], [ok(a)]], [[ok(a)], [err(b)]], [[err(a)]],
                [[ok(a), err(b)]], [[err(b), ok(a)]], [[ok(a)]],
                [[ok(b)], []]]
    return out


def state(cfg):
    A = []
    for nss in cfg['connects']:
        for auth in cfg['auths']:
            A.append(mk('Connect', nss=nss, wait=False, eio='ok', auth=auth,
                        batches=[]))
        A.append(mk('Connect', nss=nss, wait=True, eio='fail', auth='none',
                    batches=[]))
        for b in batches_for(nss):
            A.append(mk('Connect', nss=nss, wait=True, eio='ok',
                        auth=cfg['auths'][0], batches=b))
    for ns in cfg['ns_all']:
        A.append(mk('RxConnect', ns=ns))
        A.append(mk('RxConnectError', ns=ns))
        A.append(mk('RxDisconnect', ns=ns))
        A.append(mk('Emit', ns=ns, ev='msg', data='v1', cb=''))
        A.append(mk('Emit', ns=ns, ev='msg', data='b1', cb='c1'))
        A.append(mk('Send', ns=ns, data='tup2'))
        A.append(mk('Call', ns=ns, ev='q', during=[]))
    A.append(mk('RxFrame', kind='hdr', ty='BINARY_EVENT', ns='/', id=-1,
                ev='e_v', n=2))
    A.append(mk('RxFrame', kind='att', b='b1'))
    A.append(mk('Disconnect'))
    A.append(mk('TransportError'))
    A.append(mk('ServerClose'))
    return A


def acks(cfg):
    A = []
    A.append(mk('Connect', nss=cfg['connects'][0], wait=True, eio='ok',
                auth='none',
                batches=[[{'k': 'ok', 'ns': n} for n in cfg['connects'][0]]]))
    for ns in cfg['ns_all']:
        for ev in cfg.get('evs', EVS):
            for id in cfg['ids']:
                A.append(mk('RxEvent', ns=ns, id=id, ev=ev, args=['v1']))
        for args in ([], ['d1', 'l1'], ['n1', 'z0', 'f1'], ['h1', 'es']):
            for id in cfg['ids'][-2:]:
                A.append(mk('RxEvent', ns=ns, id=id, ev='e_v', args=args))
        for tag in ('c1', 'c2'):
            A.append(mk('Emit', ns=ns, ev='msg', data='v1', cb=tag))
        for id in cfg['ack_ids']:
            for args in cfg['ack_args']:
                A.append(mk('RxAck', ns=ns, id=id, args=args))
            A.append(mk('RxAckDup', ns=ns, id=id, args=['v1']))
        A.append(mk('RxFrame', kind='hdr', ty='BINARY_ACK', ns=ns, id=1,
                    ev='', n=1))
        A.append(mk('RxFrame', kind='hdr', ty='BINARY_EVENT', ns=ns, id=7,
                    ev='e_tup2', n=2))
        for d in cfg['during']:
            A.append(mk('Call', ns=ns, ev='q',
                        during=[dict(x, ns=x.get('ns', ns)) if
                                x['act'] == 'RxAck' else x for x in d]))
        A.append(mk('RxDisconnect', ns=ns))
        # (only where the second event has a handler as well: both suspend
        # alike and the answers keep the order of arrival; an event nobody
        # handles is answered at once and overtakes - not modelled)
        if cfg.get('pairs', True) and ns in cfg['ns_h']:
            A.append(mk('RxAttThenEvent', b='b1', ns=ns, id=0, ev='e_v',
                        args=['v1']))
    A.append(mk('RxFrame', kind='att', b='b1'))
    A.append(mk('RxFrame', kind='att', b='b2'))
    A.append(mk('Disconnect'))
    A.append(mk('TransportError'))
    return A


def enabled(cfg):
    max_sid = cfg['max_sid']
    max_ack = cfg.get('max_ack', 0)

    def en(s, a):
        act = a['act']
        eio = s['eio'] == 'connected'
        has_bin = 'p' in s['binbuf']
        if act == 'Connect':
            return (not a['wait']) or \
                s['nextSid'] + len(a['nss']) <= max_sid + 1
        if act in ('RxConnect', 'RxConnectError'):
            return eio and a['ns'] in s['srvReq'] and \
                a['ns'] not in s['srvAns'] and s['nextSid'] <= max_sid \
                and not has_bin
        if act in ('RxDisconnect', 'RxEvent', 'RxAck', 'RxAckDup'):
            return eio and a['ns'] in s['srvAcc'] and not has_bin
        if act == 'RxFrame':
            return eio and (a['kind'] != 'hdr' or (
                a['ns'] in s['srvAcc'] and not has_bin))
        if act == 'RxAttThenEvent':
            p = s['binbuf'].get('p')
            return eio and a['ns'] in s['srvAcc'] and p is not None and \
                len(p['atts']) + 1 == p['owed']
        if act in ('TransportError', 'ServerClose'):
            return eio
        if act == 'Emit':
            return a['cb'] == '' or all(c['next'] <= max_ack
                                        for c in s['cb'].values())
        if act == 'Call':
            return all(c['next'] <= max_ack for c in s['cb'].values()) \
                and not has_bin
        return True
    return en


CONFIGS = {}
_ST = dict(ns_h=['/', '/a'], ns_all=['/', '/a'],
           connects=[['/'], ['/a'], ['/', '/a']],
           auths=['none', 'val', 'callable'], max_sid=4, max_ack=1,
           alpha='state')
CONFIGS['cstate_fn'] = dict(_ST, hkind='fn')
CONFIGS['cstate_class'] = dict(_ST, hkind='class')
# connect() without a namespace list, on a client whose namespaces have
# function handlers AND a class-based handler object
CONFIGS['cstate_implicit'] = dict(_ST, hkind='fn', also_class=True,
                                  implicit=True, connects=[['/', '/a']],
                                  max_sid=3, auths=['val'])
# reconnection enabled: after a loss of the transport the client is
# disconnected on every namespace at once, while the reconnection effort
# (C10) has not even begun
CONFIGS['cstate_rc'] = dict(_ST, hkind='fn', max_sid=3, auths=['val'],
                            reconnection=True)
CONFIGS['cstate_quick'] = dict(_ST, hkind='fn', max_sid=3,
                               auths=['val'])
_AK = dict(ns_h=['/', '/a'], ns_all=['/', '/a'], connects=[['/', '/a']],
           max_sid=2, max_ack=2, ids=[-1, 0, 7], ack_ids=[0, 1, 2, 9],
           ack_args=[[], ['v1'], ['v1', 'v2']],
           during=[[], [{'act': 'RxAck', 'id': 1, 'args': []}],
                   [{'act': 'RxAck', 'id': 1, 'args': ['v1']}],
                   # (one falsy value is a value, not "nothing")
                   [{'act': 'RxAck', 'id': 1, 'args': ['z0']}],
                   [{'act': 'RxAck', 'id': 1, 'args': ['el']}],
                   [{'act': 'RxAck', 'id': 2, 'args': ['v1', 'b1']}],
                   [{'act': 'RxAck', 'id': 9, 'args': ['v1']}],
                   [{'act': 'TransportError'}]],
           # (AsyncClient: handlers are coroutines that really suspend)
           coro=True, alpha='acks')
CONFIGS['cacks_fn'] = dict(_AK, hkind='fn')
CONFIGS['cacks_class'] = dict(_AK, hkind='class')
CONFIGS['cacks_quick'] = dict(_AK, hkind='fn', ns_h=['/'],
                              connects=[['/', '/a']],
                              evs=['e_none', 'e_v', 'e_z', 'e_el', 'e_h',
                                   'e_tup2', 'e_bin', 'e_unh', 'e_raise'],
                              ids=[-1, 0, 7],
                              ack_args=[[], ['v1', 'v2']])
CONFIGS['cacks_quick_class'] = dict(CONFIGS['cacks_quick'], hkind='class',
                                    evs=['e_none', 'e_v', 'e_h', 'e_tup2',
                                         'e_bin', 'e_unh', 'e_raise'])

# larger budgets, explored by seeded random histories only (walks)
CONFIGS['cstate_big'] = dict(_ST, hkind='fn', max_sid=12, max_ack=4)
CONFIGS['cacks_big'] = dict(_AK, hkind='class', max_sid=8, max_ack=5,
                            ack_ids=[0, 1, 2, 3, 4, 5, 9])
