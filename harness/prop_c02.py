"""C02 - end-to-end payload transparency (spec/E2E.tla, E2ETraces.tla).

A real socketio.Client is joined to a real socketio.Server (AsyncClient to
AsyncServer) by an in-memory pipe: the server side is the real engine.io
server with an injected engine.io socket, the client side is FakeEio; every
engine.io MESSAGE crossing the pipe goes through engine.io's own packet
encode/decode with text (base64 for binary) or binary framing.  Messages are
emitted in bursts and the pipe is pumped afterwards, so several messages -
multi-frame binary ones included - are in flight at once."""
import asyncio
import json
import math
import os
import random

import engineio
import engineio.packet as eio_packet
import engineio.socket
import engineio.async_socket

import socketio

from . import common, fakeeio, tlc, vloop
from .tokens import strict_eq

NSS = ['/', '/chat']
RESERVED = {'connect', 'disconnect', 'connect_error', '*'}


class Intern:
    def __init__(self):
        self.items = []

    def tok(self, v):
        if v is None:
            return 'None'       # the one value the spec needs to recognise
        for x, t in self.items:
            if strict_eq(x, v):
                return t
        t = 'v%d' % (len(self.items) + 1)
        self.items.append((v, t))
        return t

    def find(self, v):
        if v is None:
            return 'None'
        for x, t in self.items:
            if strict_eq(x, v):
                return t
        return '?' + repr(v)[:40]


def rstr(rng):
    pool = 'abcXYZ019-,/?[]{}":_ \\' + 'é中\U0001f600\x00\n'
    return ''.join(rng.choice(pool) for _ in range(rng.randrange(0, 7)))


def rvalue(rng, depth):
    r = rng.random()
    if depth <= 0 or r < 0.4:
        k = rng.randrange(10)
        if k == 0:
            return None
        if k == 1:
            return rng.choice([True, False])
        if k == 2:
            return rng.choice([0, 1, -1, 2 ** 31, -2 ** 63, 2 ** 63 - 1, 17])
        if k == 3:
            return rng.choice([0.5, -2.25, 1e-7, 1.5e300, 3.0])
        if k in (4, 5, 6):
            return rstr(rng)
        return bytes(rng.randrange(256) for _ in range(rng.randrange(0, 5)))
    if r < 0.7:
        return [rvalue(rng, depth - 1) for _ in range(rng.randrange(0, 4))]
    return {rstr(rng): rvalue(rng, depth - 1)
            for _ in range(rng.randrange(0, 4))}


def rx(rng):
    """What the application hands to emit / returns from a handler."""
    r = rng.random()
    if r < 0.15:
        return None
    if r < 0.45:
        return tuple(rvalue(rng, rng.randrange(0, 3))
                     for _ in range(rng.randrange(0, 4)))
    v = rvalue(rng, rng.randrange(0, 4))
    return v


def xrec(x, intern):
    if x is None:
        return {'k': 'none'}
    if isinstance(x, tuple):
        return {'k': 'tuple', 'items': [intern.tok(i) for i in x]}
    return {'k': 'one', 'v': intern.tok(x)}


def xfind(x, intern):
    if x is None:
        return {'k': 'none'}
    if isinstance(x, tuple):
        return {'k': 'tuple', 'items': [intern.find(i) for i in x]}
    return {'k': 'one', 'v': intern.find(x)}


class Pipe:
    """Client <-> server, in memory, frames through engine.io's codec."""

    def __init__(self, is_async, serializer, b64, loop):
        self.is_async = is_async
        self.b64 = b64
        self.loop = loop
        # call() on the server needs async_handlers=True; the "background"
        # handler of the threaded server is run inline (deterministic), the
        # asyncio one is a task the pump lets run
        kw = dict(async_handlers=True, ping_timeout=10 ** 6,
                  ping_interval=10 ** 6, monitor_clients=False,
                  serializer=serializer)
        self.world = fakeeio.World()
        if is_async:
            asyncio.set_event_loop(loop)
            self.sio = socketio.AsyncServer(async_mode='asgi', **kw)
            scls = engineio.async_socket.AsyncSocket
        else:
            self.sio = socketio.Server(async_mode='threading', **kw)
            scls = engineio.socket.Socket
            me = self

            class Ev:
                def __init__(self):
                    self.flag = False

                def set(self):
                    self.flag = True

                def clear(self):
                    self.flag = False

                def is_set(self):
                    return self.flag

                def wait(self, timeout=None):
                    me.pump()
                    return self.flag
            self.sio.eio.create_event = lambda *a, **k: Ev()
            self.sio.eio.start_background_task = \
                lambda target, *a, **k: target(*a, **k)
        self.c = fakeeio.make_client(self.world, asyncio_based=is_async,
                                     reconnection=False,
                                     serializer=serializer)
        eid = self.sio.eio.generate_id()
        self.sock = scls(self.sio.eio, eid)
        self.sio.eio.sockets[eid] = self.sock
        self.sock.connected = True
        self.eid = eid
        self.pumping = False

    def run(self, x):
        if asyncio.iscoroutine(x) or isinstance(x, asyncio.Future):
            return self.loop.run_until_complete(x)
        return x

    # -- sync pump
    def _recode(self, data):
        enc = eio_packet.Packet(eio_packet.MESSAGE, data).encode(
            b64=self.b64)
        return eio_packet.Packet(encoded_packet=enc)

    def pump(self):
        if self.pumping:
            return
        self.pumping = True
        try:
            busy = True
            while busy:
                busy = False
                while True:
                    try:
                        p = self.sock.queue.get_nowait()
                    except Exception:
                        break
                    if p is None or p.packet_type != eio_packet.MESSAGE:
                        continue
                    busy = True
                    self.c.eio.deliver(self._recode(p.data).data)
                sent, self.c.eio.sent[:] = list(self.c.eio.sent), []
                for d in sent:
                    if isinstance(d, str) and d == '<CLOSE>':
                        continue
                    busy = True
                    self.sock.receive(self._recode(d))
        finally:
            self.pumping = False

    async def apump(self):
        busy = True
        while busy:
            busy = False
            while True:
                try:
                    p = self.sock.queue.get_nowait()
                except Exception:
                    break
                if p is None or p.packet_type != eio_packet.MESSAGE:
                    continue
                busy = True
                await self.c.eio.deliver(self._recode(p.data).data)
            sent, self.c.eio.sent[:] = list(self.c.eio.sent), []
            for d in sent:
                if isinstance(d, str) and d == '<CLOSE>':
                    continue
                busy = True
                await self.sock.receive(self._recode(d))
            await asyncio.sleep(0)


def scenario(rng, is_async, serializer, b64, loop, nmsgs):
    """Run one scripted conversation; returns the recorded events."""
    pipe = Pipe(is_async, serializer, b64, loop)
    sio, c = pipe.sio, pipe.c
    intern = Intern()
    events = []
    # the plan: bursts of messages in one direction each
    plan = []
    nid = 0
    for _ in range(rng.randrange(1, 4)):
        d = rng.choice(['c2s', 's2c'])
        for _ in range(rng.randrange(1, nmsgs + 1)):
            name = rstr(rng) or 'e'
            while name in RESERVED:
                name += 'x'
            mode = rng.choice(['plain', 'plain', 'cb', 'call'])
            if mode != 'plain':
                nid += 1
            plan.append({'dir': d, 'ns': rng.choice(NSS), 'name': name,
                         'x': rx(rng), 'mode': mode,
                         'id': nid if mode != 'plain' else 0,
                         'ret': rx(rng), 'send': rng.random() < 0.15})
    rets = {'c2s': [m['ret'] for m in plan if m['dir'] == 'c2s'],
            's2c': [m['ret'] for m in plan if m['dir'] == 's2c']}
    names = {}
    for m in plan:
        if m['send']:
            m['name'] = 'message'
        names.setdefault(m['name'], 'n%d' % (len(names) + 1))
    sids = {}

    def handled(d, ns, name, args):
        r = rets[d].pop(0) if rets[d] else None
        events.append({'ev': 'Handled', 'dir': d, 'ns': ns,
                       'name': names.get(name, '?' + name[:20]),
                       'args': [intern.find(a) for a in args],
                       'ret': xrec(r, intern)})
        return r

    coro = is_async and rng.random() < 0.5
    for ns in NSS:
        for name in names:
            def sh(sid, *args, _ns=ns, _name=name):
                return handled('c2s', _ns, _name, args)

            def ch(*args, _ns=ns, _name=name):
                return handled('s2c', _ns, _name, args)
            if coro:
                async def ash(sid, *args, _f=sh):
                    return _f(sid, *args)

                async def ach(*args, _f=ch):
                    return _f(*args)
                sio.on(name, ash, namespace=ns)
                c.on(name, ach, namespace=ns)
            else:
                sio.on(name, sh, namespace=ns)
                c.on(name, ch, namespace=ns)

    def on_cb(mid):
        def cb(*args):
            events.append({'ev': 'Callback', 'id': mid,
                           'args': [intern.find(a) for a in args]})
        return cb

    def emit_event(m):
        events.append({'ev': 'Emit', 'dir': m['dir'], 'ns': m['ns'],
                       'name': names[m['name']], 'x': xrec(m['x'], intern),
                       'id': m['id'],
                       'mode': 'call' if m['mode'] == 'call' else 'cb'})

    def call_returned(m, r):
        events.append({'ev': 'CallReturned', 'id': m['id'],
                       'result': xfind(r, intern)})

    if not is_async:
        pipe.run(sio.eio._trigger_event('connect', pipe.eid, {}))
        c.connect('http://h', namespaces=NSS, wait=False)
        pipe.pump()
        for ns in NSS:
            sids[ns] = sio.manager.sid_from_eio_sid(pipe.eid, ns)
        for m in plan:
            emit_event(m)
            kw = {'namespace': m['ns']}
            if m['dir'] == 'c2s':
                obj, tgt = c, {}
            else:
                obj, tgt = sio, {'to': sids[m['ns']]}
            if m['mode'] == 'call':
                pipe.world.wait_script = pipe.pump
                r = obj.call(m['name'], m['x'], timeout=5, **tgt, **kw)
                call_returned(m, r)
                continue
            if m['mode'] == 'cb':
                kw['callback'] = on_cb(m['id'])
            if m['send']:
                obj.send(m['x'], **tgt, **kw)
            else:
                obj.emit(m['name'], m['x'], **tgt, **kw)
            if rng.random() < 0.3:
                pipe.pump()
        pipe.pump()
    else:
        async def main():
            await sio.eio._trigger_event('connect', pipe.eid, {})
            await c.connect('http://h', namespaces=NSS, wait=False)
            await pipe.apump()
            for ns in NSS:
                sids[ns] = sio.manager.sid_from_eio_sid(pipe.eid, ns)
            for m in plan:
                emit_event(m)
                kw = {'namespace': m['ns']}
                if m['dir'] == 'c2s':
                    obj, tgt = c, {}
                else:
                    obj, tgt = sio, {'to': sids[m['ns']]}
                if m['mode'] == 'call':
                    t = asyncio.ensure_future(
                        obj.call(m['name'], m['x'], timeout=5, **tgt, **kw))
                    for _ in range(200):
                        await asyncio.sleep(0)
                        await pipe.apump()
                        if t.done():
                            break
                    call_returned(m, await t)
                    continue
                if m['mode'] == 'cb':
                    kw['callback'] = on_cb(m['id'])
                if m['send']:
                    await obj.send(m['x'], **tgt, **kw)
                else:
                    await obj.emit(m['name'], m['x'], **tgt, **kw)
                if rng.random() < 0.3:
                    await pipe.apump()
            await pipe.apump()
        loop.run_until_complete(main())
    events.append({'ev': 'End'})
    return events, plan


CONFIGS = [(a, s, b) for a in (False, True) for s in ('default', 'msgpack')
           for b in (True, False)]


def run(pid, tier):
    v = common.Verdict(pid, tier)
    wd = os.path.join(common.WORK, pid)
    os.makedirs(wd, exist_ok=True)
    cfg1 = ('INIT Init\nNEXT Next\nCONSTANTS MaxMsgs = %d\nToks = {"a"}\n'
            'INVARIANT AckOnlyIfAsked\nINVARIANT ArityRule\n'
            'INVARIANT ShapeInverse\n' % (4 if tier == 'quick' else 5))
    r1 = tlc.run_tlc(os.path.join(wd, 'g1'), 'E2E', cfg1, workers=8)
    v.log('  G1 E2E machine: %d states, %s' % (
        r1.distinct, 'ok' if r1.ok else r1.violation or r1.error))
    if r1.error:
        v.error('TLC: ' + r1.error)
    elif not r1.ok:
        v.violation('E2E.tla violates ' + str(r1.violation),
                    {'tlc': r1.out[-3000:]})
    v.cov['states'] += r1.distinct
    v.cov['transitions'] += r1.generated
    rng = random.Random(common.seed())
    per = 60 if tier == 'quick' else 1500
    loop = vloop.new_loop()
    edges, out, index, samples = [], [[]], [], []
    nn = 1
    ntr = 0
    kinds = set()
    for is_async, ser, b64 in CONFIGS:
        for k in range(per):
            try:
                evs, plan = scenario(rng, is_async, ser, b64, loop,
                                     8 if tier == 'thorough' else 5)
            except Exception as e:
                evs, plan = [{'ev': 'Crashed', 'what': type(e).__name__ +
                              ': ' + str(e)[:200]}], []
            ntr += 1
            cur = 1
            for e in evs:
                nn += 1
                out.append([])
                edges.append({'dst': nn, 'e': e})
                out[cur - 1].append(len(edges))
                index.append((is_async, ser, b64, k))
                cur = nn
                if e['ev'] == 'Emit':
                    kinds.add(json.dumps([e['dir'], e['x']['k'], e['mode'],
                                          len(e['x'].get('items', []))]))
            if len(samples) < 2 and len(evs) > 8:
                samples.append({'impl': 'asyncio' if is_async else 'threaded',
                                'serializer': ser, 'b64': b64,
                                'events': evs[:12]})
    gf = os.path.join(wd, 'traces.json')
    with open(gf, 'w') as f:
        json.dump({'out': out, 'edges': edges}, f)
    cfg2 = ('INIT GInit\nNEXT GNext\nCONSTANTS MaxMsgs = 0\nToks = {}\n'
            'INVARIANT AllEventsOK\nINVARIANT AckOnlyIfAsked\n')
    r2 = tlc.run_tlc(os.path.join(wd, 'g2'), 'E2ETraces', cfg2,
                     env={'GRAPH_FILE': gf}, workers=4, heap='8g')
    v.log('  G2 %d conversations (8 configurations), %d events: %s' % (
        ntr, len(edges), 'ok' if r2.ok else r2.violation or r2.error))
    if r2.error:
        v.error('TLC: ' + r2.error)
    elif not r2.ok:
        import re
        rej = [p for p in r2.prints if 'EVENT_REJECTED' in p]
        rep = {'verdict': rej[0][:3000] if rej else str(r2.violation)}
        if rej:
            i = int(re.search(r'"EVENT_REJECTED", (\d+)', rej[0]).group(1))
            a, s, b, k = index[i - 1]
            rep.update({'impl': 'asyncio' if a else 'threaded',
                        'serializer': s, 'b64': b, 'conversation': k,
                        'seed': common.seed(), 'event': edges[i - 1]['e']})
        v.violation('recorded conversation is not a behaviour of E2E.tla: '
                    + rep['verdict'][:1500], rep)
    else:
        v.cov['traces_validated_against_impl'] = ntr
    v.cov.update({
        'samples': samples, 'evaluations': len(edges),
        'distinct_nontrivial': len(kinds), 'exhaustive': False,
        'rule': 'seeded random conversations: bursts of emit/send/call in '
                'either direction on two namespaces, payloads = JSON trees '
                'with bytes leaves (unicode, control characters, 64-bit '
                'ints, floats), with callback / call() / none, pumped '
                'through engine.io framing; distinct = (direction, payload '
                'kind, arity, ack mode) classes of emits seen'})
    v.assumptions = ['FakeEio client side; real engine.io server side and '
                     'real engine.io packet codec on the pipe', 'TLC',
                     'deep equality of payloads is the harness\'s '
                     '(tokens.strict_eq)']
    return v.finish()
