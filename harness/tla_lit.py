"""Python value -> TLA+ literal text (for generated MC modules)."""
import re

_ident = re.compile(r'^[A-Za-z_][A-Za-z0-9_]*$')


def lit(v):
    if isinstance(v, bool):
        return 'TRUE' if v else 'FALSE'
    if isinstance(v, int):
        return str(v)
    if isinstance(v, str):
        return '"' + v.replace('\\', '\\\\').replace('"', '\\"') + '"'
    if isinstance(v, (list, tuple)):
        return '<<' + ', '.join(lit(x) for x in v) + '>>'
    if isinstance(v, (set, frozenset)):
        return '{' + ', '.join(lit(x) for x in sorted(v)) + '}'
    if isinstance(v, dict):
        if not v:
            return '<<>>'
        if all(_ident.match(k) for k in v):
            return '[' + ', '.join('%s |-> %s' % (k, lit(x))
                                   for k, x in v.items()) + ']'
        return '(' + ' @@ '.join('(%s :> %s)' % (lit(k), lit(x))
                                 for k, x in v.items()) + ')'
    raise TypeError(type(v))
