"""SimpleClient under the baton scheduler (C19): the instance's
connected_event / input_event / input_buffer are replaced by objects with
yield points; the underlying Client runs over FakeEio."""
import socketio

from . import baton, fakeeio, refcodec

NS = '/chat'


class SimpleAdapter:
    """cfg: arrivals (int), app (list of ['receive', has_timeout] /
    ['emit']), conn (list of 'drop' | 'reconnect' | 'refail' | 'final' | 'giveup')."""

    def __init__(self, cfg):
        self.cfg = cfg
        self.sched = None
        self.reset()

    def reset(self):
        if self.sched is not None:
            self.sched.teardown()
        cfg = self.cfg
        self.sched = sched = baton.Sched()
        self.world = w = fakeeio.World()
        me = self

        class HClient(socketio.Client):
            def _engineio_client_class(self_inner):
                return type('FakeEioW', (fakeeio.FakeEio,), {'world': w})

        class HSimple(socketio.SimpleClient):
            client_class = HClient

        self.sc = sc = HSimple(reconnection=True, reconnection_delay=1,
                               randomization_factor=0)
        self.results = []
        self.hk = 0
        self.ck = 0
        self.ak = 0

        # scripted server: accepts the namespace whenever connect() waits
        def accept():
            c = sc.client
            c.eio.deliver(refcodec.ref_encode(0, NS, None,
                                              {'sid': 'S'})[0])
        w.wait_script = accept
        sc.connect('http://h', namespace=NS, wait_timeout=1)
        w.wait_script = None
        self.c = sc.client
        # swap in the instrumented primitives (flags carried over)
        sc.connected_event = baton.HEvent(sched, 'conn',
                                          sc.connected_event.is_set())
        sc.input_event = baton.HEvent(sched, 'inp', sc.input_event.is_set())
        sc.input_buffer = baton.HList(sched, 'buf')
        del self.c.eio.sent[:]

        def app():
            for op in cfg['app']:
                try:
                    if op[0] == 'receive':
                        r = sc.receive(timeout=1 if op[1] else None)
                        me.results.append(['ok'] + [str(x) for x in r])
                    else:
                        sc.emit('x', 'v')
                        me.results.append(['ok'])
                except baton.Abort:
                    raise
                except Exception as e:
                    me.results.append(['exc', type(e).__name__])
                me.ak += 1

        def handler():
            c = me.c
            for k in range(cfg['arrivals']):
                # an event can only arrive while the transport is up
                sched.yield_point('h.arrive',
                                  blocked=lambda: c.eio.state != 'connected')
                c._handle_eio_message(
                    refcodec.ref_encode(2, NS, None, ['ev', k + 1])[0])
                me.hk += 1

        def conn():
            c = me.c
            for op in cfg['conn']:
                sched.yield_point('c.next')
                if op == 'drop':
                    c.eio.transport_error()
                elif op == 'final':
                    c.eio.server_close()
                elif op == 'giveup':
                    # the reconnection effort is aborted during its back-off
                    w.wait_answers = ['set']
                    w.tasks[-1].run()
                    w.wait_answers = []
                elif op == 'reconnect':
                    w.wait_answers = []
                    task = w.tasks[-1]

                    def script():
                        # first wait = the back-off (times out), second = the
                        # CONNECT reply of the server
                        def second():
                            c.eio.deliver(refcodec.ref_encode(
                                0, NS, None, {'sid': 'S2'})[0])
                        w.wait_script = second
                    w.wait_script = script
                    task.run()
                    w.wait_script = None
                elif op == 'refail':
                    # the first attempt of the effort fails at the transport,
                    # the second (a step of its own) succeeds
                    w.wait_answers = []
                    w.connect_outcomes = ['fail']
                    task = w.tasks[-1]

                    def script():           # 1st wait: back-off, times out
                        def second():       # 2nd wait: the next back-off
                            sched.yield_point('c.retry')

                            def third():    # 3rd wait: the CONNECT reply
                                c.eio.deliver(refcodec.ref_encode(
                                    0, NS, None, {'sid': 'S2'})[0])
                            w.wait_script = third
                        w.wait_script = second
                    w.wait_script = script
                    task.run()
                    w.wait_script = None
                me.ck += 1

        sched.spawn('A', app)
        sched.spawn('H', handler)
        sched.spawn('C', conn)
        sched.start()

    def close(self):
        if self.sched is not None:
            self.sched.teardown()
            self.sched = None

    def apply(self, a):
        before = len(self.results)
        sent0 = len(self.c.eio.sent)
        self.sched.step(a['th'], a['c'])
        new = self.results[before:]
        return {'res': new[0] if new else [],
                'sent': len(self.c.eio.sent) - sent0}

    def enabled_choices(self):
        return self.sched.choices()

    def project(self):
        sc = self.sc
        c = self.c
        return {
            'pcA': self.sched.label_of('A'), 'ak': self.ak,
            'pcH': self.sched.label_of('H'), 'hk': self.hk,
            'pcC': self.sched.label_of('C'), 'ck': self.ck,
            # (the instance may have replaced its buffer object)
            'buf': [str(x[1]) for x in (
                sc.input_buffer.raw() if hasattr(sc.input_buffer, 'raw')
                else list(sc.input_buffer))],
            'inEv': sc.input_event.flag, 'connEv': sc.connected_event.flag,
            'connected': bool(sc.connected),
            'eioUp': c.eio.state == 'connected',
            'nsUp': NS in c.namespaces,
            'results': [list(r) for r in self.results],
            'woken': False,
            'choices': sorted('%s:%s' % x for x in self.sched.choices()),
        }


ALPHABET = [{'th': t, 'c': c} for t in ('A', 'H', 'C')
            for c in ('run', 'timeout')]


def enabled(state, a):
    return '%s:%s' % (a['th'], a['c']) in state['choices']


CONFIGS = {
    'sc_quick': dict(arrivals=2, app=[['receive', True], ['receive', True]],
                     conn=[]),
    'sc_block': dict(arrivals=2, app=[['receive', False], ['receive', True],
                                      ['receive', True]], conn=[]),
    'sc_drop': dict(arrivals=1, app=[['receive', True], ['receive', True]],
                    conn=['drop', 'reconnect']),
    'sc_final': dict(arrivals=1, app=[['receive', True], ['receive', True]],
                     conn=['final']),
    'sc_emit': dict(arrivals=0, app=[['emit'], ['emit']],
                    conn=['drop', 'reconnect']),
    'sc_emit_final': dict(arrivals=0, app=[['emit'], ['emit']],
                          conn=['drop', 'giveup']),
    # a reconnection effort whose first attempt fails
    'sc_refail': dict(arrivals=1, app=[['receive', True], ['emit']],
                      conn=['drop', 'refail']),
    'sc_emit_refail': dict(arrivals=0, app=[['emit'], ['emit']],
                           conn=['drop', 'refail']),
    'sc_burst': dict(arrivals=3, app=[['receive', True], ['receive', True],
                                      ['receive', True], ['receive', True]],
                     conn=[]),
    'sc_mix': dict(arrivals=2, app=[['receive', True], ['receive', False],
                                    ['receive', True]],
                   conn=['drop', 'reconnect', 'final']),
}
