"""Independent, specification-derived Socket.IO v5 codec (the Python twin of
spec/Packet.tla's RefFrame / RefRead).  It does not import socketio.

Wire grammar (socket.io-protocol v5):
    <type digit>[<n attachments>-][<namespace>,][<ack id>][<json payload>]
Binary packets (types 5, 6) replace every bytes leaf, in depth-first order,
by {"_placeholder": true, "num": k} and are followed by the n attachments.
"""
import json

NAMES = ['CONNECT', 'DISCONNECT', 'EVENT', 'ACK', 'CONNECT_ERROR',
         'BINARY_EVENT', 'BINARY_ACK']


def deconstruct(data, atts):
    if isinstance(data, (bytes, bytearray)):
        atts.append(bytes(data))
        return {'_placeholder': True, 'num': len(atts) - 1}
    if isinstance(data, (list, tuple)):
        return [deconstruct(x, atts) for x in data]
    if isinstance(data, dict):
        return {k: deconstruct(v, atts) for k, v in data.items()}
    return data


def reconstruct(data, atts):
    if isinstance(data, list):
        return [reconstruct(x, atts) for x in data]
    if isinstance(data, dict):
        if data.get('_placeholder') is True and set(data) == {'_placeholder',
                                                               'num'}:
            return atts[data['num']]
        return {k: reconstruct(v, atts) for k, v in data.items()}
    return data


def has_bytes(data):
    if isinstance(data, (bytes, bytearray)):
        return True
    if isinstance(data, (list, tuple)):
        return any(has_bytes(x) for x in data)
    if isinstance(data, dict):
        return any(has_bytes(x) for x in data.values())
    return False


def ref_encode(ptype, ns=None, id=None, data=None):
    """Packet -> list of frames [text, att0, att1, ...]."""
    atts = []
    if has_bytes(data):
        if ptype == 2:
            ptype = 5
        elif ptype == 3:
            ptype = 6
        elif ptype not in (5, 6):
            raise ValueError('binary payload only for EVENT/ACK')
    if ptype in (5, 6):
        data = deconstruct(data, atts)
    out = str(ptype)
    if ptype in (5, 6):
        out += str(len(atts)) + '-'
    if ns is not None and ns != '/':
        out += ns + ','
    if id is not None:
        out += str(id)
    if data is not None:
        out += json.dumps(data, separators=(',', ':'))
    return [out] + atts


class Malformed(Exception):
    pass


def ref_read(frame):
    """Text frame -> dict(type, natt, ns, id, data) or raises Malformed.
    This is the *reading* the v5 grammar gives a frame; data is the parsed
    JSON (placeholders untouched)."""
    if not isinstance(frame, str) or len(frame) == 0:
        raise Malformed('empty / not text')
    if frame[0] not in '0123456':
        raise Malformed('type')
    ptype = int(frame[0])
    i = 1
    natt = 0
    if ptype in (5, 6):
        j = i
        while j < len(frame) and frame[j] in '0123456789':
            j += 1
        if j == i or j >= len(frame) or frame[j] != '-':
            raise Malformed('attachment count')
        natt = int(frame[i:j])
        i = j + 1
    ns = '/'
    if i < len(frame) and frame[i] == '/':
        j = frame.find(',', i)
        if j == -1:
            ns = frame[i:]
            i = len(frame)
        else:
            ns = frame[i:j]
            i = j + 1
        q = ns.find('?')
        if q != -1:
            ns = ns[:q]
    pid = None
    j = i
    while j < len(frame) and frame[j] in '0123456789':
        j += 1
    if j > i:
        pid = int(frame[i:j])
        i = j
    data = None
    if i < len(frame):
        try:
            data = json.loads(frame[i:])
        except ValueError:
            raise Malformed('json')
    return {'type': ptype, 'natt': natt, 'ns': ns, 'id': pid, 'data': data}


def read_frames(frames):
    """A transport's outgoing frame list -> list of logical packets
    (dict type/ns/id/data/natt), attachments consumed and re-inserted.  Framing
    errors are reported as packets of type 'BAD'."""
    out = []
    i = 0
    while i < len(frames):
        f = frames[i]
        i += 1
        if not isinstance(f, str):
            out.append({'type': 'BAD', 'why': 'stray-binary', 'ns': '/',
                        'id': None, 'data': None, 'natt': 0})
            continue
        try:
            p = ref_read(f)
        except Malformed as e:
            out.append({'type': 'BAD', 'why': str(e), 'ns': '/', 'id': None,
                        'data': None, 'natt': 0})
            continue
        if p['type'] in (5, 6):
            atts = frames[i:i + p['natt']]
            if len(atts) != p['natt'] or not all(
                    isinstance(a, (bytes, bytearray)) for a in atts):
                out.append({'type': 'BAD', 'why': 'missing-attachments',
                            'ns': p['ns'], 'id': p['id'], 'data': None,
                            'natt': p['natt']})
                continue
            i += p['natt']
            try:
                p['data'] = reconstruct(p['data'], [bytes(a) for a in atts])
            except Exception:
                p['type'] = 'BAD'
                p['why'] = 'bad-placeholder'
        out.append(p)
    return out


# ---------------------------------------------------------------- msgpack
# The msgpack serializer (msgpack_packet.py) has no wire grammar of its own:
# a packet is msgpack.dumps({'type', 'data', 'nsp'[, 'id']}), byte strings
# stay in place.  Reference twin, independent of socketio:
def mp_encode(ptype, ns=None, id=None, data=None):
    import msgpack
    d = {'type': ptype, 'data': data, 'nsp': ns if ns is not None else '/'}
    if id is not None:
        d['id'] = id
    return [msgpack.dumps(d)]


def mp_read_frames(frames):
    import msgpack
    out = []
    for f in frames:
        try:
            d = msgpack.loads(f)
            out.append({'type': d['type'], 'natt': 0,
                        'ns': d.get('nsp') or '/', 'id': d.get('id'),
                        'data': d.get('data')})
        except Exception as e:
            out.append({'type': 'BAD', 'why': 'msgpack:' + type(e).__name__,
                        'ns': '/', 'id': None, 'data': None, 'natt': 0})
    return out
