"""C13 - handler resolution precedence (spec/Dispatch.tla,
spec/DispatchCases.tla)."""
import asyncio
import itertools
import json
import os
import random

import engineio.packet as eio_packet
import engineio.socket
import engineio.async_socket
import socketio

from . import common, fakeeio, refcodec, tlc

KEYS = ['hNE', 'hNS', 'hSE', 'hSS', 'cN', 'cS', 'other', 'method']


def lattice():
    for bits in itertools.product([False, True], repeat=len(KEYS)):
        yield dict(zip(KEYS, bits))


class Rec:
    def __init__(self, ns, ev, known):
        self.calls = []
        self.ns = ns
        self.ev = ev
        self.known = known      # value -> token

    def tokens(self, args):
        out = []
        for a in args:
            if isinstance(a, str) and a == self.ev:
                out.append('EV')
            elif isinstance(a, str) and a == self.ns:
                out.append('NS')
            else:
                for v, t in self.known:
                    if a is v or (type(a) is type(v) and a == v):
                        out.append(t)
                        break
                else:
                    out.append('?' + repr(a)[:30])
        return out

    def marker(self, target, coro):
        if coro:
            async def h(*args):
                self.calls.append((target, self.tokens(args)))
            return h

        def h(*args):
            self.calls.append((target, self.tokens(args)))
        return h


def register(obj, p, ns, ev, rec, coro, base_ns_class):
    if p['hNE']:
        obj.on(ev, rec.marker('hNE', coro), namespace=ns)
    if p['hNS']:
        obj.on('*', rec.marker('hNS', coro), namespace=ns)
    if p['other']:
        obj.on('some_other_event', rec.marker('other', coro), namespace=ns)
    if p['hSE']:
        obj.on(ev, rec.marker('hSE', coro), namespace='*')
    if p['hSS']:
        obj.on('*', rec.marker('hSS', coro), namespace='*')
    for key, name in (('cN', ns), ('cS', '*')):
        if p[key]:
            body = {}
            if p['method']:
                body['on_' + ev] = staticmethod(rec.marker(key, coro))
            cls = type('N', (base_ns_class,), body)
            obj.register_namespace(cls(name))


def split(p, late):
    """The registry p built in two steps: everything but `late` first, the
    keys in `late` after the event has been dispatched once."""
    early = dict(p)
    rest = {k: False for k in p}
    for k in late or ():
        early[k] = False
        rest[k] = p[k]
    rest['method'] = p['method']
    return early, rest


def run_server(p, kind, is_async, coro, rng, loop, late=None):
    ns = '/n%d' % rng.randrange(1000)
    ev = {'ordinary': 'ev%d' % rng.randrange(1000), 'star': '*'}.get(kind,
                                                                      kind)
    a1, a2 = 'x%d' % rng.randrange(100), rng.randrange(100)
    environ = {'k': 'environ'}
    known = [(environ, 'environ'), (a1, 'a1'), (a2, 'a2')]
    rec = Rec(ns, ev, known)
    kw = dict(namespaces='*', async_handlers=False, ping_timeout=10 ** 6,
              monitor_clients=False)
    if is_async:
        sio = socketio.AsyncServer(async_mode='asgi', **kw)
        S = engineio.async_socket.AsyncSocket
    else:
        sio = socketio.Server(async_mode='threading', **kw)
        S = engineio.socket.Socket
    early, rest = split(p, late)
    nsbase = socketio.AsyncNamespace if is_async else socketio.Namespace
    register(sio, early, ns, ev, rec, coro, nsbase)

    def run(x):
        if asyncio.iscoroutine(x) or isinstance(x, asyncio.Future):
            return loop.run_until_complete(x)
        return x
    eid = 'E1'
    s = S(sio.eio, eid)
    sio.eio.sockets[eid] = s
    s.connected = True
    run(sio.eio._trigger_event('connect', eid, environ))

    def feed(frame):
        run(s.receive(eio_packet.Packet(eio_packet.MESSAGE, frame)))
    sid_holder = {}
    feed(refcodec.ref_encode(0, ns)[0])
    sid = sio.manager.sid_from_eio_sid(eid, ns)
    rec.known.append((sid, 'sid'))
    # re-tokenise what was recorded during CONNECT now that sid is known
    if kind == 'connect':
        calls = [(t, ['sid' if (x.startswith('?') and sid in x) else x
                      for x in a]) for t, a in rec.calls]
        normal = ['sid', 'environ']
    else:
        rec.calls = []
        if kind in ('ordinary', 'star'):
            feed(refcodec.ref_encode(2, ns, None, [ev, a1, a2])[0])
            if late:
                # the registry grows, the same event arrives again
                rec.calls = []
                register(sio, rest, ns, ev, rec, coro, nsbase)
                feed(refcodec.ref_encode(2, ns, None, [ev, a1, a2])[0])
            normal = ['sid', 'a1', 'a2']
        else:
            rec.known.append(('client disconnect', 'reason'))
            feed(refcodec.ref_encode(1, ns)[0])
            normal = ['sid', 'reason']
        calls = list(rec.calls)
    return calls, normal, rec


def run_client(p, kind, is_async, coro, rng, loop, late=None):
    ns = '/n%d' % rng.randrange(1000)
    ev = {'ordinary': 'ev%d' % rng.randrange(1000), 'star': '*'}.get(kind,
                                                                      kind)
    a1, a2 = 'x%d' % rng.randrange(100), rng.randrange(100)
    known = [(a1, 'a1'), (a2, 'a2'), ('server disconnect', 'reason'),
             ('refused', 'data')]
    rec = Rec(ns, ev, known)
    world = fakeeio.World()
    c = fakeeio.make_client(world, asyncio_based=is_async, reconnection=False)
    early, rest = split(p, late)
    nsbase = socketio.AsyncClientNamespace if is_async \
        else socketio.ClientNamespace
    register(c, early, ns, ev, rec, coro, nsbase)

    def run(x):
        if asyncio.iscoroutine(x) or isinstance(x, asyncio.Future):
            return loop.run_until_complete(x)
        return x
    run(c.connect('http://h', namespaces=[ns], wait=False))
    rec.calls = []
    if kind == 'connect_error':
        run(c.eio.deliver(refcodec.ref_encode(4, ns, None, 'refused')[0]))
        return list(rec.calls), ['data'], rec
    run(c.eio.deliver(refcodec.ref_encode(0, ns, None, {'sid': 'S'})[0]))
    if kind == 'connect':
        return list(rec.calls), [], rec
    rec.calls = []
    if kind in ('ordinary', 'star'):
        run(c.eio.deliver(refcodec.ref_encode(2, ns, None, [ev, a1, a2])[0]))
        if late:
            rec.calls = []
            register(c, rest, ns, ev, rec, coro, nsbase)
            run(c.eio.deliver(refcodec.ref_encode(2, ns, None,
                                                  [ev, a1, a2])[0]))
        return list(rec.calls), ['a1', 'a2'], rec
    run(c.eio.deliver(refcodec.ref_encode(1, ns)[0]))
    return list(rec.calls), ['reason'], rec


def build_cases(seed, tier):
    rng = random.Random(seed)
    loop = asyncio.new_event_loop()
    asyncio.set_event_loop(loop)
    cases = []
    sides = [('Server', run_server, False, [False],
              ['ordinary', 'star', 'connect', 'disconnect']),
             ('AsyncServer', run_server, True, [False, True],
              ['ordinary', 'star', 'connect', 'disconnect']),
             ('Client', run_client, False, [False],
              ['ordinary', 'star', 'connect', 'disconnect', 'connect_error']),
             ('AsyncClient', run_client, True, [False, True],
              ['ordinary', 'star', 'connect', 'disconnect',
               'connect_error'])]
    reps = 1 if tier == 'quick' else 3
    for side, fn, is_async, coros, kinds in sides:
        for p in lattice():
            for kind in kinds:
                # an event named "*" cannot have a handler registered by name
                if kind == 'star' and (p['hNE'] or p['hSE']):
                    continue
                for coro in coros:
                    for _ in range(reps):
                        calls, normal, rec = fn(p, kind, is_async, coro, rng,
                                                loop)
                        calls = [c for c in calls if c[0] != 'other']
                        if len(calls) == 0:
                            ran, args = 'none', []
                        elif len(calls) == 1:
                            ran, args = calls[0]
                        else:
                            ran, args = 'multi:' + '+'.join(
                                c[0] for c in calls), []
                        cases.append({'side': side + ('/coro' if coro else ''),
                                      'kind': kind, 'p': p, 'ran': ran,
                                      'args': args, 'normal': normal,
                                      'late': []})
    # a registry that GROWS between two arrivals of the same event: the
    # second arrival is resolved against the registry as it then is
    grow = ['hNE', 'hNS', 'hSE', 'hSS', 'cN', 'cS']
    for side, fn, is_async, coros, kinds in sides:
        for p in lattice():
            if p['other']:
                continue
            present = [k for k in grow if p[k]]
            lates = [[k] for k in present]
            if tier != 'quick':
                lates += [[x for x in present if x != k] for k in present
                          if len(present) > 2]
                lates += [rng.sample(present, 2)] if len(present) > 3 else []
            for kind in ('ordinary', 'star'):
                if kind == 'star' and (p['hNE'] or p['hSE']):
                    continue
                for late in lates:
                    for coro in coros:
                        calls, normal, rec = fn(p, kind, is_async, coro, rng,
                                                loop, late=late)
                        calls = [c for c in calls if c[0] != 'other']
                        if len(calls) == 0:
                            ran, args = 'none', []
                        elif len(calls) == 1:
                            ran, args = calls[0]
                        else:
                            ran, args = 'multi:' + '+'.join(
                                c[0] for c in calls), []
                        cases.append({'side': side + ('/coro' if coro else ''),
                                      'kind': kind, 'p': p, 'ran': ran,
                                      'args': args, 'normal': normal,
                                      'late': late})
    loop.close()
    return cases


def run(pid, tier):
    v = common.Verdict(pid, tier)
    wd = os.path.join(common.WORK, pid)
    os.makedirs(wd, exist_ok=True)
    # G1: the lattice theorems on the spec
    cfg = 'INIT Init\nNEXT Next\n' + ''.join(
        'INVARIANT %s\n' % i for i in
        ['SrvIsDoc', 'CliIsDoc', 'FunctionBeatsClass',
         'ReservedNeverCatchAllEvent', 'NoTargetDropped'])
    r1 = tlc.run_tlc(os.path.join(wd, 'g1'), 'Dispatch', cfg, workers=1)
    v.log('  G1 Dispatch lattice (512 points x 2 resolvers): %s' % (
        'ok' if r1.ok else r1.violation or r1.error))
    if r1.error:
        v.error('TLC: ' + r1.error)
    elif not r1.ok:
        v.violation('the code-shaped resolver differs from the documented '
                    'precedence: %s' % r1.violation,
                    {'tlc': r1.out[-3000:]})
    # G2: every lattice point on the real classes
    cases = build_cases(common.seed(), tier)
    cf_ = os.path.join(wd, 'cases.json')
    with open(cf_, 'w') as f:
        json.dump(cases, f)
    cfg2 = 'INIT Init\nNEXT Next\nINVARIANT AllCasesOK\nINVARIANT Covered\n'
    r2 = tlc.run_tlc(os.path.join(wd, 'g2'), 'DispatchCases', cfg2,
                     env={'CASES_FILE': cf_}, workers=1)
    v.log('  G2 %d implementation cases: %s' % (
        len(cases), 'ok' if r2.ok else r2.violation or r2.error))
    if r2.error:
        v.error('TLC: ' + r2.error)
    elif not r2.ok:
        rej = [p for p in r2.prints if 'CASE_REJECTED' in p]
        import re
        idx = int(re.search(r'"CASE_REJECTED", (\d+)', rej[0]).group(1)) \
            if rej else None
        v.violation('implementation case rejected: ' + (
            rej[0] if rej else str(r2.violation)),
            {'case': cases[idx - 1] if idx else None})
    v.cov.update({
        'states': 512, 'transitions': max(1, len(cases)),
        'traces_validated_against_impl': len(cases) if r2.ok else 0,
        'samples': cases[1000:1003],
        'evaluations': len(cases),
        'distinct_nontrivial': len({json.dumps([c['side'], c['kind'], c['p']],
                                               sort_keys=True)
                                    for c in cases if c['ran'] != 'none'}),
        'rule': 'complete lattice 2^8 presence/method/other points x '
                '{ordinary, each reserved event} x 4 classes x {sync, '
                'coroutine}; non-trivial = some target ran'})
    v.assumptions = ['FakeEio stands in for engineio.Client (transports '
                     'cannot run offline)', 'TLC']
    return v.finish()
