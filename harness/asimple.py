"""AsyncSimpleClient under a gate scheduler (C19, asyncio): everything runs
on one virtual-time loop.  The instance's connected_event / input_event are
asyncio.Event subclasses that behave exactly like asyncio.Event (a wait on a
set event does not suspend; set() latches the waiter's wake-up) but park a
woken waiter on a *gate* before it goes on, so the driver decides which of
the ready tasks runs next: every await-point interleaving of the application
task (receive / emit), the arrivals and the connection events is explored.
The only timer is the application's own wait_for timeout; the reconnection
back-off is a gate too."""
import asyncio
import logging

import socketio

from . import fakeeio, refcodec, vloop
from .adisc import Gates
from .simple import NS, ALPHABET, enabled, CONFIGS as _SC   # noqa

logging.getLogger('asyncio').setLevel(logging.CRITICAL)


class AGates(Gates):
    def __init__(self, loop):
        super().__init__(loop)
        self.blocked = {}       # task name -> label (parked on a clear event)
        self.extra = {}         # asyncio task -> logical name (library tasks)

    def name_of(self):
        t = asyncio.current_task()
        return self.extra.get(t, t.get_name())

    async def gate(self, label):
        name = self.name_of()
        if name not in self.tasks and name not in self.extra.values():
            return None
        fut = self.loop.create_future()
        self.parked[name] = (label, fut)
        return await fut

    def step(self, name, value=None):
        label, fut = self.parked.pop(name)
        fut.set_result(value)
        self.settle()

    def teardown(self):
        for t in list(self.tasks.values()) + list(self.extra):
            t.cancel()
        self.settle()


class GEvent(asyncio.Event):
    def __init__(self, gates, label, flag):
        super().__init__()
        self.gates = gates
        self.label = label
        if flag:
            self.set()

    async def wait(self):
        if self.is_set():
            return True
        g = self.gates
        name = g.name_of()
        g.blocked[name] = self.label
        g.block_time = g.loop.time()     # (the enclosing wait_for began now)
        try:
            await super().wait()        # woken by set() (latched) ...
        finally:
            g.blocked.pop(name, None)
        await g.gate(self.label)        # ... and now merely ready to run
        return True


class BackoffEvent(asyncio.Event):
    """The reconnection effort's abort event: the back-off wait parks the
    library's reconnect task on a gate; the driver ends the wait as a
    time-out (next attempt) or as an abort (give up)."""

    def __init__(self, gates):
        super().__init__()
        self.gates = gates

    async def wait(self):
        if self.is_set():
            return True
        g = self.gates
        g.extra[asyncio.current_task()] = 'R'
        how = await g.gate('backoff')
        if how == 'abort':
            return True
        raise asyncio.TimeoutError()


class AsyncSimpleAdapter:
    """cfg as simple.SimpleAdapter."""

    def __init__(self, cfg):
        self.cfg = cfg
        self.loop = vloop.new_loop()
        self.g = None
        self.reset()

    def reset(self):
        if self.g is not None:
            self.g.teardown()
        cfg = self.cfg
        loop = self.loop
        asyncio.set_event_loop(loop)
        self.g = g = AGates(loop)
        self.world = w = fakeeio.World()
        me = self

        class Eio(fakeeio.AsyncFakeEio):
            world = w

            def create_event(self_inner, *a, **k):
                # (the connect event is always answered before it is waited
                # for; only the back-off wait ever blocks)
                return BackoffEvent(g)

        class HClient(socketio.AsyncClient):
            def _engineio_client_class(self_inner):
                return Eio

        class HSimple(socketio.AsyncSimpleClient):
            client_class = HClient

        self.results = []
        self.op_start = loop.time()
        self.hk = self.ck = self.ak = 0
        self.accept_sid = ['S']

        async def accept():
            # the conformant server answers the CONNECT at once
            await me.sc.client.eio.deliver(refcodec.ref_encode(
                0, NS, None, {'sid': me.accept_sid[0]})[0])
        w.on_connected = accept

        async def setup():
            me.sc = sc = HSimple(reconnection=True,
                                 reconnection_delay=10 ** 6,
                                 reconnection_delay_max=10 ** 6,
                                 randomization_factor=0)
            await sc.connect('http://h', namespace=NS, wait_timeout=1)
            sc.connected_event = GEvent(g, 'conn.wait',
                                        sc.connected_event.is_set())
            sc.input_event = GEvent(g, 'inp.wait', sc.input_event.is_set())
        loop.run_until_complete(setup())
        sc = self.sc
        self.c = c = sc.client
        del c.eio.sent[:]

        async def app():
            for op in cfg['app']:
                try:
                    if op[0] == 'receive':
                        me.op_start = loop.time()
                        r = await sc.receive(timeout=1 if op[1] else None)
                        me.results.append(['ok'] + [str(x) for x in r])
                    else:
                        await sc.emit('x', 'v')
                        me.results.append(['ok'])
                except asyncio.CancelledError:
                    raise
                except Exception as e:
                    me.results.append(['exc', type(e).__name__])
                me.ak += 1

        async def handler():
            for k in range(cfg['arrivals']):
                await g.gate('h.arrive')
                await c._handle_eio_message(
                    refcodec.ref_encode(2, NS, None, ['ev', k + 1])[0])
                me.hk += 1

        async def conn():
            for op in cfg['conn']:
                await g.gate('c.next')
                if op == 'drop':
                    w.connect_outcomes = []
                    await c.eio.transport_error()
                elif op == 'final':
                    await c.eio.server_close()
                elif op == 'giveup':
                    me._release_backoff('abort')
                elif op == 'reconnect':
                    me.accept_sid[0] = 'S2'
                    me._release_backoff('timeout')
                elif op == 'refail':
                    # the first attempt fails at the transport ...
                    w.connect_outcomes = ['fail']
                    me.accept_sid[0] = 'S2'
                    me._release_backoff('timeout')
                    for _ in range(50):
                        await asyncio.sleep(0)
                    # ... the second, a step of its own, succeeds
                    await g.gate('c.retry')
                    me._release_backoff('timeout')
                for _ in range(50):
                    await asyncio.sleep(0)
                me.ck += 1

        g.spawn('A', app)
        g.spawn('H', handler)
        g.spawn('C', conn)
        g.settle()

    def _release_backoff(self, how):
        g = self.g
        if 'R' in g.parked:
            label, fut = g.parked.pop('R')
            fut.set_result(how)

    # ------------------------------------------------------------ driver
    def choices(self):
        g = self.g
        out = []
        c = self.c
        for name in ('A', 'H', 'C'):
            if name in g.parked:
                label = g.parked[name][0]
                if name == 'H' and label == 'h.arrive' and \
                        c.eio.state != 'connected':
                    continue        # nothing arrives while the transport is down
                out.append((name, 'run'))
            elif name in g.blocked and name == 'A':
                op = self.cfg['app'][self.ak] if self.ak < len(
                    self.cfg['app']) else None
                if op and op[0] == 'receive' and op[1]:
                    out.append(('A', 'timeout'))
        return out

    def apply(self, a):
        before = len(self.results)
        sent0 = len(self.c.eio.sent)
        g = self.g
        if a['c'] == 'timeout':
            async def tick():
                # virtual time: exactly the pending wait_for fires (the next
                # receive() starts then and has a second of its own)
                d = getattr(g, 'block_time', self.op_start) + 1 - \
                    self.loop.time()
                await asyncio.sleep(max(d, 0) + 0.25)
                for _ in range(50):
                    await asyncio.sleep(0)
            self.loop.run_until_complete(tick())
        else:
            g.step(a['th'])
        new = self.results[before:]
        return {'res': new[-1] if new else [],
                'sent': len(self.c.eio.sent) - sent0}

    def _pc(self, name):
        g = self.g
        if name in g.parked:
            return g.parked[name][0]
        if name in g.blocked:
            return g.blocked[name]
        return 'done'

    def project(self):
        sc = self.sc
        c = self.c
        g = self.g
        return {
            'pcA': self._pc('A'), 'ak': self.ak,
            'pcH': self._pc('H'), 'hk': self.hk,
            'pcC': self._pc('C'), 'ck': self.ck,
            'buf': [str(x[1]) for x in sc.input_buffer],
            'inEv': sc.input_event.is_set(),
            'connEv': sc.connected_event.is_set(),
            'connected': bool(sc.connected),
            'eioUp': c.eio.state == 'connected',
            'nsUp': NS in c.namespaces,
            'results': [list(r) for r in self.results],
            'woken': 'A' in g.parked and g.parked['A'][0] in (
                'conn.wait', 'inp.wait'),
            'choices': sorted('%s:%s' % x for x in self.choices()),
        }


CONFIGS = {'a' + k: dict(v, atomic=True) for k, v in _SC.items()}
