"""C15, broker failures: drive RedisManager / AsyncRedisManager's retry loops
over the fake redis client (harness/fake_redis) with scripted failures and
record what happens, for RedisRetryTraces.tla.

Run as a subprocess (`python -m harness.redis_retry <out.json> <tier>`) with
harness/fake_redis first on sys.path, because socketio imports `redis` when
it is imported."""
import asyncio
import itertools
import json
import os
import pickle
import sys


def _setup():
    here = os.path.dirname(os.path.abspath(__file__))
    sys.path.insert(0, os.path.join(here, 'fake_redis'))
    sys.path.insert(0, os.path.join(os.environ.get('VERIF_REPO', '/repo'),
                                    'src'))


class _Time:
    def __init__(self, log):
        self.log = log

    def sleep(self, d):
        self.log.append(['Sleep', d])

    def __getattr__(self, n):
        import time
        return getattr(time, n)


class _Asyncio:
    def __init__(self, log):
        self.log = log

    async def sleep(self, d):
        self.log.append(['Sleep', d])

    def __getattr__(self, n):
        return getattr(asyncio, n)


def listen_scripts(tier):
    """Failure patterns of the listener: per round, how the reconnection
    goes (connect error / subscribe error / ok) and how the listening on
    the fresh connection ends (error after k messages / plain end)."""
    out = []
    rounds = ['cerr', 'serr', 'ok_err0', 'ok_err2', 'ok_end1']
    maxlen = 3 if tier == 'quick' else 4
    for L in range(0, maxlen + 1):
        for pat in itertools.product(rounds, repeat=L):
            out.append(list(pat))
    # long outages: the sleep must reach its cap and stay there, then reset
    out.append(['cerr'] * 9 + ['ok_err2', 'cerr', 'ok_err0'])
    out.append(['serr'] * 8 + ['ok_end1', 'ok_err0', 'cerr', 'cerr'])
    return out


def build_listen_script(pat):
    n = [0]

    def msgs(k):
        items = []
        for _ in range(k):
            n[0] += 1
            items += [('sub',), ('other', b'zz'),
                      ('msg', pickle.dumps({'n': n[0]}))]
        return items
    script = [('subscribe', 'ok'), ('listen', msgs(1) + [('err',)])]
    for r in pat:
        if r == 'cerr':
            script.append(('connect', 'err'))
        elif r == 'serr':
            script += [('connect', 'ok'), ('subscribe', 'err')]
        elif r.startswith('ok_err'):
            script += [('connect', 'ok'), ('subscribe', 'ok'),
                       ('listen', msgs(int(r[-1])) + [('err',)])]
        elif r.startswith('ok_end'):
            script += [('connect', 'ok'), ('subscribe', 'ok'),
                       ('listen', msgs(int(r[-1])))]
    return script


PUBLISH_SCRIPTS = [
    [('publish', 'ok')],
    [('publish', 'err'), ('connect', 'ok'), ('publish', 'ok')],
    [('publish', 'err'), ('connect', 'ok'), ('publish', 'err')],
    [('publish', 'err'), ('connect', 'err')],
    [('publish', 'ok'), ('publish', 'err'), ('connect', 'ok'),
     ('publish', 'ok'), ('publish', 'ok')],
]


def to_events(log, produced_tok):
    evs = []
    for e in log:
        k = e[0]
        if k == 'Subscribe':
            evs.append({'ev': 'Subscribe', 'ok': e[1] == 'ok', 'gen': e[2]})
        elif k == 'Listen':
            evs.append({'ev': 'Listen', 'gen': e[1]})
        elif k in ('ListenError', 'ListenEnded', 'PubStart', 'End'):
            evs.append({'ev': k})
        elif k == 'Sleep':
            d = e[1]
            evs.append({'ev': 'Sleep',
                        'd': int(d) if float(d) == int(d) else -1})
        elif k == 'Connect':
            evs.append({'ev': 'Connect', 'ok': e[1] == 'ok'})
        elif k in ('Produced', 'Yield'):
            evs.append({'ev': k, 'm': produced_tok(e[1])})
        elif k == 'Publish':
            evs.append({'ev': 'Publish', 'ok': e[1] == 'ok', 'gen': e[2]})
        elif k == 'PubEnd':
            evs.append({'ev': 'PubEnd', 'how': e[1]})
        else:
            evs.append({'ev': '?' + str(e)[:60]})
    return evs


def main(out, tier):
    _setup()
    import redis
    from redis import CONTROL, ScriptEnd
    import socketio
    import socketio.redis_manager as rm
    import socketio.async_redis_manager as arm
    assert socketio.__file__.startswith(os.path.join(os.environ.get(
        'VERIF_REPO', '/repo'), 'src'))
    traces = []

    # the fake logs every message it hands to the library
    import redis.asyncio as raio
    for mod in (redis, raio):
        orig = mod.PubSub.listen
        if mod is redis:
            def listen(self, _o=orig):
                for m in _o(self):
                    if m['type'] == 'message' and \
                            m['channel'] == CONTROL.channel:
                        CONTROL.log.append(['Produced', m['data']])
                    yield m
        else:
            async def listen(self, _o=orig):
                async for m in _o(self):
                    if m['type'] == 'message' and \
                            m['channel'] == CONTROL.channel:
                        CONTROL.log.append(['Produced', m['data']])
                    yield m
        mod.PubSub.listen = listen

    def tok(data):
        try:
            return 'm%d' % pickle.loads(data)['n']
        except Exception:
            return '?' + repr(data)[:30]

    loop = asyncio.new_event_loop()
    for impl in ('RedisManager', 'AsyncRedisManager'):
        for pat in listen_scripts(tier):
            CONTROL.script = [('connect', 'ok')] + build_listen_script(pat)
            CONTROL.log = []
            how = 'script-end'
            if impl == 'RedisManager':
                rm.time = _Time(CONTROL.log)
                mgr = socketio.RedisManager('redis://x')
                del CONTROL.log[:]
                rm.time = _Time(CONTROL.log)
                try:
                    for data in mgr._listen():
                        CONTROL.log.append(['Yield', data])
                    how = 'listener-ended'
                except ScriptEnd:
                    pass
                except Exception as e:
                    how = 'listener-raised:' + type(e).__name__
            else:
                mgr = socketio.AsyncRedisManager('redis://x')
                del CONTROL.log[:]
                arm.asyncio = _Asyncio(CONTROL.log)

                async def consume():
                    async for data in mgr._listen():
                        CONTROL.log.append(['Yield', data])
                try:
                    loop.run_until_complete(consume())
                    how = 'listener-ended'
                except ScriptEnd:
                    pass
                except Exception as e:
                    how = 'listener-raised:' + type(e).__name__
            log = list(CONTROL.log)
            if how != 'script-end':
                log.append(['?' + how])       # the listener must never stop
            log.append(['End'])
            traces.append({'impl': impl, 'kind': 'listen', 'pattern': pat,
                           'events': to_events(log, tok)})
        for ps in PUBLISH_SCRIPTS:
            CONTROL.script = [('connect', 'ok')] + list(ps)
            CONTROL.log = []
            if impl == 'RedisManager':
                mgr = socketio.RedisManager('redis://x', write_only=True)
            else:
                mgr = socketio.AsyncRedisManager('redis://x',
                                                 write_only=True)
            del CONTROL.log[:]
            npub = sum(1 for s in ps if s[0] == 'publish')
            try:
                while CONTROL.script:
                    CONTROL.log.append(['PubStart'])
                    try:
                        r = mgr._publish({'method': 'emit', 'n': npub})
                        if asyncio.iscoroutine(r):
                            loop.run_until_complete(r)
                        CONTROL.log.append(['PubEnd', 'returned'])
                    except ScriptEnd:
                        raise
                    except Exception as e:
                        CONTROL.log.append(['PubEnd', 'raised:' +
                                            type(e).__name__])
            except ScriptEnd:
                CONTROL.log.append(['?script-ran-out-inside-publish'])
            traces.append({'impl': impl, 'kind': 'publish',
                           'pattern': [s[1] for s in ps],
                           'events': to_events(CONTROL.log, tok)})
    loop.close()
    with open(out, 'w') as f:
        json.dump(traces, f)


if __name__ == '__main__':
    main(sys.argv[1], sys.argv[2] if len(sys.argv) > 2 else 'quick')
