"""C18 - admin instrumentation (spec/Admin.tla, AdminGraph.tla,
AdminCases.tla).

Three legs:
  auth     every (credential configuration, payload) pair on a real
           instrumented Server / AsyncServer; TLC judges each recorded case
           with Admin!Accept (AdminCases.tla);
  gate     exhaustive transition graph of an instrumented server with an
           admin attached, alphabet = application traffic + admin requests
           (emit / join / leave / _disconnect), validated against Admin.tla for
           every mode x read_only;
  transp   the PLAIN SioServer alphabets (rooms, acks, events, lifecycle)
           explored on instrumented servers (development / production, with
           and without an admin attached) and validated against the
           unchanged SioServer semantics: the application cannot tell.

instrument() patches engineio's Socket classes process-wide; the harness
restores them right after each call (it never uses those entry points), and
C18 runs in its own process anyway.
"""
import asyncio
import json
import os
import random

import engineio.packet as eio_packet
import engineio.socket
import engineio.async_socket

import socketio

from . import common, explore, refcodec, srv, srv_alpha, srv_check, tlc
from .tla_lit import lit

ADMIN_NS = '/admin'
TA = 'ta'            # the admin's transport, invisible to the projection

_PATCHED = ('handle_post_request', '_websocket_handler', '_send_ping')


class _Dummy:
    def join(self, *a):
        pass

    def cancel(self):
        pass


def instrument(sio, is_async, **kw):
    """sio.instrument(**kw) without leaving engineio's classes patched."""
    cls = engineio.async_socket.AsyncSocket if is_async \
        else engineio.socket.Socket
    saved = {n: cls.__dict__.get(n) for n in _PATCHED}
    names = set(cls.__dict__)
    inst = sio.instrument(**kw)
    for n, v in saved.items():
        if v is not None:
            setattr(cls, n, v)
    for n in set(cls.__dict__) - names:
        delattr(cls, n)
    return inst


class AdminSrvAdapter(srv.SrvAdapter):
    """cfg['instrument'] = {'mode', 'read_only', 'admin': bool}"""

    def reset(self):
        super().reset()
        ins = self.cfg['instrument']
        sio = self.sio
        sio.eio.sleep = (self._asleep if self.is_async else
                         (lambda *a, **k: None))
        orig_sbt = sio.eio.start_background_task

        def sbt(target, *a, **k):
            if getattr(target, '__name__', '') == '_emit_server_stats':
                return _Dummy()
            return orig_sbt(target, *a, **k)
        sio.eio.start_background_task = sbt
        self.inst = instrument(sio, self.is_async,
                               auth=AUTHS[ins.get('auth', 'off')][0],
                               mode=ins['mode'],
                               read_only=ins.get('read_only', False))
        self.admin_sock = None
        if ins.get('admin'):
            self._attach_admin()

    async def _asleep(self, *a, **k):
        await asyncio.sleep(0)

    def _harness_objects(self):
        # the instrumentation's own bookkeeping (connection timestamps) is
        # not application-visible state
        return (getattr(self.sio.manager, '_timestamps', None),)

    def _attach_admin(self):
        sio = self.sio
        cls = engineio.async_socket.AsyncSocket if self.is_async \
            else engineio.socket.Socket
        eid = sio.eio.generate_id()
        s = cls(sio.eio, eid)
        sio.eio.sockets[eid] = s
        s.connected = True
        self.admin_sock = s
        self.admin_eid = eid
        self._run(sio.eio._trigger_event('connect', eid, {'t': TA}))
        self._feed_admin(refcodec.ref_encode(0, ADMIN_NS)[0])
        self._finish_bg()
        self._drop_admin_queue()
        assert sio.manager.sid_from_eio_sid(eid, ADMIN_NS), 'admin not in'

    def _feed_admin(self, frame):
        return self._run(self.admin_sock.receive(
            eio_packet.Packet(eio_packet.MESSAGE, frame)))

    def _drop_admin_queue(self):
        if self.admin_sock is None:
            return
        q = self.admin_sock.queue
        while True:
            try:
                q.get_nowait()
            except Exception:
                break

    def _extra_act(self, a):
        if a['act'] != 'AdminReq':
            return False
        f = None if a['filter'] == 'none' else self._room(a['filter'])
        k = a['kind']
        if k == 'emit':
            data = ['emit', a['ns'], f, 'msg', 'v1']
        elif k in ('join', 'leave'):
            data = [k, a['ns'], a['room'], f]
        else:
            data = ['_disconnect', a['ns'], False, f]
        self._feed_admin(refcodec.ref_encode(2, ADMIN_NS, None, data)[0])
        return True

    def apply(self, a):
        out = super().apply(a)
        self._drop_admin_queue()
        return out

    # the projection hides the admin namespace and the admin's transport
    def _hidden_ns(self):
        return (ADMIN_NS,)

    def _hidden_eids(self):
        return (getattr(self, 'admin_eid', None),)


# ------------------------------------------------------------- alphabets
def with_admin(cfg):
    A = getattr(srv_alpha, cfg['base_alpha'])(cfg)
    S = [srv_alpha.sid(i) for i in range(1, cfg['max_sid'] + 1)]
    for ns in cfg['ns_api']:
        for f in ['none'] + cfg.get('adm_filters', []):
            for kind in cfg.get('adm_kinds', []):
                A.append(srv_alpha.mk('AdminReq', kind=kind, ns=ns, filter=f,
                                      room=cfg.get('adm_room', 'r1')))
    return A


def enabled(cfg):
    en = srv_alpha.enabled(cfg)

    def f(s, a):
        if a['act'] == 'AdminReq':
            return s['nextSid'] > a['need']
        return en(s, a)
    return f


def consts(cfg):
    c = srv_check.consts(cfg)
    c.update({'Mode': cfg['instrument']['mode'],
              'ReadOnly': bool(cfg['instrument'].get('read_only'))})
    return c


CONFIGS = {}
_G = dict(srv_alpha.CONFIGS['rooms_quick'], base_alpha='rooms',
          alpha='with_admin', ns_all=['/'], ns_api=['/'], ns_h=['/'],
          rooms=['r1'], emit_to=[('none', []), ('one', ['r1'])],
          emit_skip=[('none', [])],
          adm_kinds=['emit', 'join', 'leave', '_disconnect'],
          adm_filters=['r1', 's1'])
for _m, _ro in (('development', False), ('development', True),
                ('production', False), ('production', True)):
    CONFIGS['adm_gate_%s_%s' % (_m[:3], 'ro' if _ro else 'rw')] = dict(
        _G, instrument={'mode': _m, 'read_only': _ro, 'admin': True})

# transparency: the plain configurations on instrumented servers
for _base in ('rooms_quick', 'acks_quick', 'events_quick',
              'lifecycle_quick', 'lifecycle_quick_ac', 'sessions_quick',
              'residue_quick', 'hostile_quick'):
    for _m in ('development', 'production'):
        for _adm in (False, True):
            CONFIGS['adm_transp_%s_%s_%s' % (_base, _m[:3],
                                             'adm' if _adm else 'noadm')] = \
                dict(srv_alpha.CONFIGS[_base],
                     base_alpha=srv_alpha.CONFIGS[_base]['alpha'],
                     alpha='with_admin',
                     instrument={'mode': _m, 'read_only': False,
                                 'admin': _adm})


# ------------------------------------------------------------ credentials
D1 = {'username': 'admin', 'password': 'secret'}
D2 = {'username': 'bob', 'password': '1234'}


def pred(p):
    return isinstance(p, dict) and p.get('username') == 'admin'


async def apred(p):
    return pred(p)


def pred_none(p):
    # the same condition written the way applications often do: a value
    # when satisfied, nothing (None) otherwise
    if pred(p):
        return p['username']


async def apred_zero(p):
    return 1 if pred(p) else 0


def pred_empty(p):
    return [p] if pred(p) else []


AUTHS = {
    'off': (False, {'k': 'off'}),
    'dict': (dict(D1), None),
    'list': ([dict(D1), dict(D2)], None),
    'pred': (pred, {'k': 'pred'}),
    'apred': (apred, {'k': 'apred'}),
    # the same predicate, answering with truthy / falsy values that are not
    # True / False (a predicate is satisfied or it is not)
    'pred_none': (pred_none, {'k': 'pred'}),
    'pred_empty': (pred_empty, {'k': 'pred'}),
    'apred_zero': (apred_zero, {'k': 'apred'}),
}


def enc(v):
    """Python value -> the specification's value encoding (every value is a
    record tagged with its type, so values of different types compare
    unequal instead of being incomparable)."""
    if isinstance(v, bool):
        return {'k': 'bool', 'v': v}
    if isinstance(v, int):
        return {'k': 'int', 'v': v}
    if isinstance(v, float):
        return {'k': 'float', 'v': str(v)}
    if isinstance(v, str):
        return {'k': 'str', 'v': v}
    if v is None:
        return {'k': 'none'}
    if isinstance(v, dict):
        return {'k': 'dict', 'v': {str(k): enc(x) for k, x in v.items()}}
    if isinstance(v, (list, tuple)):
        return {'k': 'list', 'v': [enc(x) for x in v]}
    raise TypeError(type(v))


def enc_payload(p):
    return {'k': 'absent'} if p is ABSENT else enc(p)


def enc_auth(name):
    cfg, e = AUTHS[name]
    if e is not None:
        return e
    if isinstance(cfg, dict):
        return {'k': 'dict', 'd': enc(cfg)}
    return {'k': 'list', 'l': [enc(x) for x in cfg]}


class _Absent:
    pass


ABSENT = _Absent()

# the specification's payload set (Admin.tla Payloads), as Python values
SPEC_PAYLOADS = [
    ABSENT, None, 'admin', True, [dict(D1)], dict(D1), dict(D2),
    {'username': 'admin'}, dict(D1, extra='x'),
    {'username': 'admin', 'password': 'wrong'},
    {'username': 'bob', 'password': 1234},
    {'username': 'Admin', 'password': 'secret'},
    {'auth': dict(D1)}, {},
]


def mutations(rng, n):
    """Payloads beyond the specification's set: mutations of the credentials."""
    out = [
        {'password': 'secret', 'username': 'admin'},      # other key order
        {'password': '1234', 'username': 'bob'},
        {'username': 'admin', 'password': 'secret', 'username2': 'admin'},
        {'username': 'admin', 'password': None},
        {'username': ['admin'], 'password': 'secret'},
        {'username': 'admin', 'password': 'secret '},
        {'username': 'admin', 'password': b'secret'.decode() + ''},
        {'Username': 'admin', 'Password': 'secret'},
        {'username': 'bob', 'password': 'secret'},        # mixes D1 and D2
        {'username': 'admin', 'password': '1234'},
        # (a bare number cannot be a CONNECT payload in the v5 grammar: it
        # reads as the packet id)
        [dict(D1), dict(D2)], [], 'secret', False, '',
        {'username': True, 'password': 'secret'},
        {'username': 'admin', 'password': {'$ne': ''}},
        {'username': {'k': 'str'}, 'password': 'secret'},
    ]
    keys = ['username', 'password', 'extra', 'auth']
    vals = ['admin', 'secret', 'bob', '1234', 1234, None, True, '', 0]
    for _ in range(n):
        d = {}
        for k in rng.sample(keys, rng.randrange(0, 4)):
            d[k] = rng.choice(vals)
        out.append(d)
    return out


def one_case(name, payload, is_async, loop):
    """Fresh instrumented server with an application client connected;
    returns the observed outcome of the admin CONNECT."""
    cfg = dict(srv_alpha.CONFIGS['rooms_quick'], asyncio=is_async,
               transports=['t1'], instrument={'mode': 'development'})

    cfg['instrument']['auth'] = name
    ad = AdminSrvAdapter(cfg, loop=loop)
    ad.apply(srv_alpha.mk('EioOpen', t='t1', after=''))
    ad.apply(srv_alpha.mk('RxConnect', t='t1', ns='/', auth='absent'))
    before = ad.project()
    sio = ad.sio
    cls = engineio.async_socket.AsyncSocket if is_async \
        else engineio.socket.Socket
    eid = sio.eio.generate_id()
    s = cls(sio.eio, eid)
    sio.eio.sockets[eid] = s
    s.connected = True
    ad.admin_sock = s
    ad.admin_eid = eid
    ad._run(sio.eio._trigger_event('connect', eid, {'t': TA}))
    if payload is ABSENT:
        frame = refcodec.ref_encode(0, ADMIN_NS)[0]
    else:
        frame = '0' + ADMIN_NS + ',' + json.dumps(payload,
                                                  separators=(',', ':'))
    ad._feed_admin(frame)
    ad._finish_bg()
    frames = []
    while True:
        try:
            p = s.queue.get_nowait()
        except Exception:
            break
        if p is not None and p.packet_type == eio_packet.MESSAGE:
            frames.append(p.data)
    # (the instrumentation's own `config` events may overtake the answer
    # because the harness turns its sleep(0.1) into a no-op)
    pk = [p for p in refcodec.read_frames(frames)
          if p['type'] in (0, 4) and p['ns'] == ADMIN_NS][:1]
    accepted = bool(pk) and pk[0]['type'] == 0
    error = ''
    if pk and pk[0]['type'] == 4:
        d = pk[0]['data']
        error = d.get('message', '?') if isinstance(d, dict) else str(d)
    elif not pk:
        error = '?no-answer'
    member = sio.manager.sid_from_eio_sid(eid, ADMIN_NS) is not None
    after = ad.project()
    others = 'untouched' if explore.canon(after) == explore.canon(before) \
        and not ad._drain() else 'changed'
    return {'accepted': accepted, 'member': member, 'error': error,
            'others': others}


def build_cases(seed, tier):
    rng = random.Random(seed)
    loop = srv.vloop.new_loop()
    cases = []
    extra = mutations(rng, 10 if tier == 'quick' else 200)
    for side, is_async in (('Server', False), ('AsyncServer', True)):
        for name in AUTHS:
            if name.startswith('apred') and not is_async:
                continue
            for p in SPEC_PAYLOADS + extra:
                obs = one_case(name, p, is_async, loop)
                obs.update({'side': side, 'auth': enc_auth(name),
                            'flavour': name,
                            'payload': enc_payload(p)})
                cases.append(obs)
    return cases


# ------------------------------------------------------------------- run
def run(pid, tier):
    from . import prop_server
    v = common.Verdict(pid, tier)
    wd = os.path.join(common.WORK, pid)
    os.makedirs(wd, exist_ok=True)
    # ---- leg 1: credentials
    mod = ('---- MODULE MCA ----\nEXTENDS Admin\n'
           'c_T == {"t1"}\nc_E == {}\nc_A == <<>>\n====')
    ccfg = ('CONSTANTS\n Transports <- c_T\n NsH <- c_E\n NsListed <- c_E\n'
            ' NsStar = FALSE\n HKind = "fn"\n AlwaysConnect = FALSE\n'
            ' AsyncHandlers = FALSE\n MaxSid = 1\n MaxAck = 0\n'
            ' Alphabet <- c_A\n Dev <- c_E\n Mode = "development"\n'
            ' ReadOnly = FALSE\n')
    r1 = tlc.run_tlc(os.path.join(wd, 'g1'), 'MCA',
                     'INIT Init\nNEXT ANext\n' + ccfg +
                     'INVARIANT AcceptOnlyWhenEntitled\n',
                     modules={'MCA': mod}, workers=1)
    v.log('  G1 Accept over %s: %s' % ('5 configurations x 14 payloads',
                                       'ok' if r1.ok else
                                       r1.violation or r1.error))
    if r1.error:
        v.error('TLC: ' + r1.error)
    elif not r1.ok:
        v.violation('Accept admits a payload the statement does not entitle',
                    {'tlc': r1.out[-3000:]})
    cases = build_cases(common.seed(), tier)
    cf_ = os.path.join(wd, 'cases.json')
    with open(cf_, 'w') as f:
        json.dump(cases, f)
    mod2 = mod.replace('MODULE MCA', 'MODULE MCC').replace(
        'EXTENDS Admin', 'EXTENDS AdminCases')
    r2 = tlc.run_tlc(os.path.join(wd, 'g2'), 'MCC',
                     'INIT Init\nNEXT ANext\n' + ccfg +
                     'INVARIANT AllCasesOK\nINVARIANT Covered\n',
                     env={'CASES_FILE': cf_}, modules={'MCC': mod2},
                     workers=1)
    v.log('  G2 %d admin CONNECT cases on real instrumented servers: %s' % (
        len(cases), 'ok' if r2.ok else r2.violation or r2.error))
    if r2.error:
        v.error('TLC: ' + r2.error)
    elif not r2.ok:
        import re
        rej = [p for p in r2.prints if 'CASE_REJECTED' in p]
        m = re.search(r'"CASE_REJECTED", (\d+)', rej[0]) if rej else None
        v.violation('admin CONNECT case rejected: ' + (
            rej[0] if rej else str(r2.violation)),
            {'case': cases[int(m.group(1)) - 1] if m else None})
    else:
        v.cov['traces_validated_against_impl'] += len(cases)
    # ---- legs 2 and 3: graphs
    v.planid = 'C18g'
    prop_server._run_plan(v, pid, 'C18g', tier)
    v.cov['samples'] = v.cov['samples'][:1] + cases[5:7]
    v.cov['rule'] = ('credentials: every configuration x (specification '
                     'payload set + mutations); graphs: every alphabet '
                     'action from every reachable abstract state of '
                     'instrumented servers; distinct = distinct abstract '
                     'states + distinct credential cases')
    v.cov['exhaustive'] = False
    v.cov['exhaustive_note'] = (
        'gating and transparency graphs are enumerated completely; the '
        'credential cases are the specification\'s payload set plus seeded '
        'mutations of the credentials')
    v.cov['evaluations'] = v.cov['traces_validated_against_impl']
    v.cov['distinct_nontrivial'] = sum(
        r['impl_states'] for r in v.cov['runs']) + len(
        {json.dumps([c['side'], c['auth'], c['payload']], sort_keys=True)
         for c in cases})
    v.assumptions = ['engine.io server side real, sockets injected; the '
                     'periodic server_stats task is not started; sleeps '
                     'are no-ops', 'TLC']
    return v.finish()
