"""FakeEio / AsyncFakeEio: the API surface of engineio.Client /
engineio.AsyncClient that socketio.Client / AsyncClient actually use, with the
state machine transcribed from engineio/client.py (connect: 64-101 and
228-238; disconnect: 117-139; _receive_packet: 428-445; read loop end:
533-540) and spelled out in spec/EioClient.tla.  The real engine.io client
transports need aiohttp / websocket-client / requests sessions against a
server, none of which can run in this sandbox.

 state: disconnected -> connected -> (disconnecting) -> disconnected
 * disconnect() and a server CLOSE run the 'disconnect' handler while
   state == 'disconnecting';
 * a transport error runs it while state == 'connected' (this is what makes
   socketio decide to reconnect).
"""
import asyncio
import inspect

import engineio
from engineio import exceptions as eio_exc


class World:
    """What the harness scripts: outcomes of successive connect() attempts,
    what wait() calls answer, which background tasks exist."""

    def __init__(self):
        self.connect_outcomes = []   # 'ok' | 'fail' (consumed per attempt)
        self.on_connected = None     # callback run right after a connect
        self.wait_script = None      # callable run inside the next wait()
        self.wait_answers = []       # scripted return values for wait(timeout)
        self.waits = []              # observed wait(timeout) arguments
        self.tasks = []              # background tasks handed to us
        self.sleeps = []
        self.log = []                # contained exceptions etc.

    def next_outcome(self):
        return self.connect_outcomes.pop(0) if self.connect_outcomes else 'ok'


class FakeTask:
    def __init__(self, target, args, kwargs):
        self.target = target
        self.args = args
        self.kwargs = kwargs
        self.done = False
        self.joined = 0

    def run(self):
        self.done = True
        return self.target(*self.args, **self.kwargs)

    def join(self):
        self.joined += 1
        if not self.done:
            self.run()


class ScriptedEvent:
    """create_event(): wait(timeout) records the timeout, runs the scripted
    world step, and answers without any clock."""

    def __init__(self, world):
        self.world = world
        self.flag = False

    def set(self):
        self.flag = True

    def clear(self):
        self.flag = False

    def is_set(self):
        return self.flag

    def wait(self, timeout=None):
        w = self.world
        w.waits.append(timeout)
        script = w.wait_script
        w.wait_script = None
        if script:
            script()
        if w.wait_answers:
            a = w.wait_answers.pop(0)
            if a == 'set':
                self.flag = True
            return self.flag
        return self.flag


class FakeEio:
    reason = engineio.Client.reason
    world = None     # set by the harness subclass factory

    def __init__(self, **kwargs):
        self.kwargs = kwargs
        self.handlers = {}
        self.state = 'disconnected'
        self.sid = None
        self.sent = []
        self.connect_calls = []
        self.n = 0
        self.logger = None

    def on(self, event, handler=None):
        def set_handler(h):
            self.handlers[event] = h
            return h
        if handler is None:
            return set_handler
        set_handler(handler)

    # ---- API used by socketio.Client
    def connect(self, url, headers=None, transports=None,
                engineio_path='engine.io'):
        if self.state != 'disconnected':
            raise ValueError('Client is not in a disconnected state')
        self.connect_calls.append({'url': url, 'headers': headers,
                                   'transports': transports,
                                   'path': engineio_path})
        if self.world.next_outcome() == 'fail':
            self._reset()
            raise eio_exc.ConnectionError('Connection refused by the server')
        self.n += 1
        self.sid = 'eio%d' % self.n
        self.state = 'connected'
        try:
            self._trigger('connect', reraise=True)
        except Exception as exc:
            self._reset()
            raise eio_exc.ConnectionError(
                'Connect handler failed: ' + str(exc))
        if self.world.on_connected:
            self.world.on_connected()

    def send(self, data):
        if self.state != 'connected':
            return
        self.sent.append(data)

    def disconnect(self, abort=False, reason=None):
        if self.state == 'connected':
            self.sent.append('<CLOSE>')
            self.state = 'disconnecting'
            self._trigger('disconnect',
                          reason or self.reason.CLIENT_DISCONNECT)
            self.state = 'disconnected'
        self._reset()

    def wait(self):
        self.world.log.append('eio.wait')

    def transport(self):
        return 'polling'

    def create_event(self, *a, **k):
        return ScriptedEvent(self.world)

    def start_background_task(self, target, *args, **kwargs):
        t = FakeTask(target, args, kwargs)
        self.world.tasks.append(t)
        return t

    def sleep(self, seconds=0):
        self.world.sleeps.append(seconds)

    # ---- internals
    def _reset(self):
        self.state = 'disconnected'
        self.sid = None

    def _trigger(self, event, *args, reraise=False):
        if event not in self.handlers:
            return
        try:
            try:
                return self.handlers[event](*args)
            except TypeError:
                if event == 'disconnect' and len(args) == 1:
                    return self.handlers[event]()
                raise
        except Exception as e:
            self.world.log.append('contained:' + type(e).__name__)
            if reraise:
                raise

    # ---- stimuli (the server / the network)
    def deliver(self, data):
        """an engine.io MESSAGE arrives (handlers joined)"""
        if self.state == 'connected':
            self._trigger('message', data)

    def transport_error(self):
        """the read loop ends while connected"""
        if self.state == 'connected':
            self._trigger('disconnect', self.reason.TRANSPORT_ERROR)
            self._reset()

    def server_close(self):
        """an engine.io CLOSE packet arrives"""
        self.disconnect(abort=True, reason=self.reason.SERVER_DISCONNECT)


class AsyncScriptedEvent(ScriptedEvent):
    async def wait(self, timeout=None):     # used through asyncio.wait_for
        return ScriptedEvent.wait(self, timeout)


class AsyncFakeEio(FakeEio):
    reason = engineio.AsyncClient.reason

    async def connect(self, url, headers=None, transports=None,
                      engineio_path='engine.io'):
        if self.state != 'disconnected':
            raise ValueError('Client is not in a disconnected state')
        self.connect_calls.append({'url': url, 'headers': headers,
                                   'transports': transports,
                                   'path': engineio_path})
        if self.world.next_outcome() == 'fail':
            self._reset()
            raise eio_exc.ConnectionError('Connection refused by the server')
        self.n += 1
        self.sid = 'eio%d' % self.n
        self.state = 'connected'
        try:
            await self._atrigger('connect', reraise=True)
        except Exception as exc:
            self._reset()
            raise eio_exc.ConnectionError(
                'Connect handler failed: ' + str(exc))
        if self.world.on_connected:
            r = self.world.on_connected()
            if inspect.isawaitable(r):
                await r

    async def send(self, data):
        if self.state != 'connected':
            return
        self.sent.append(data)

    async def disconnect(self, abort=False, reason=None):
        if self.state == 'connected':
            self.sent.append('<CLOSE>')
            self.state = 'disconnecting'
            await self._atrigger('disconnect',
                                 reason or self.reason.CLIENT_DISCONNECT)
            self.state = 'disconnected'
        self._reset()

    async def wait(self):
        self.world.log.append('eio.wait')

    def create_event(self, *a, **k):
        return asyncio.Event()

    def start_background_task(self, target, *args, **kwargs):
        return asyncio.ensure_future(target(*args, **kwargs))

    async def sleep(self, seconds=0):
        self.world.sleeps.append(seconds)

    async def _atrigger(self, event, *args, reraise=False):
        if event not in self.handlers:
            return
        h = self.handlers[event]
        try:
            try:
                r = h(*args)
                if inspect.isawaitable(r):
                    r = await r
                return r
            except TypeError:
                if event == 'disconnect' and len(args) == 1:
                    r = h()
                    if inspect.isawaitable(r):
                        r = await r
                    return r
                raise
        except Exception as e:
            self.world.log.append('contained:' + type(e).__name__)
            if reraise:
                raise

    async def deliver(self, data):
        if self.state == 'connected':
            await self._atrigger('message', data)

    async def transport_error(self):
        if self.state == 'connected':
            await self._atrigger('disconnect', self.reason.TRANSPORT_ERROR)
            self._reset()

    async def server_close(self):
        await self.disconnect(abort=True,
                              reason=self.reason.SERVER_DISCONNECT)


def make_client(world, asyncio_based=False, **kw):
    """A real socketio.Client / AsyncClient whose engine.io is the fake."""
    import socketio
    if asyncio_based:
        eio_cls = type('AsyncFakeEioW', (AsyncFakeEio,), {'world': world})
        cls = type('HAsyncClient', (socketio.AsyncClient,), {
            '_engineio_client_class': lambda self: eio_cls})
    else:
        eio_cls = type('FakeEioW', (FakeEio,), {'world': world})
        cls = type('HClient', (socketio.Client,), {
            '_engineio_client_class': lambda self: eio_cls})
    return cls(**kw)
