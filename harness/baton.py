"""Baton scheduler: real threads, one runs at a time, pre-emption exactly at
the instrumented operations (yield points).  A thread that reaches a yield
point parks; the driver picks which parked thread performs its operation
next.  Blocking waits are harness events: a wait on a clear flag is not
schedulable (the thread is blocked) except as a 'timeout' choice when the
call has a finite timeout - wall-clock time is never consulted."""
import threading


class Abort(BaseException):
    """Raised inside controlled threads to tear a run down."""


class Sched:
    def __init__(self):
        self.threads = {}       # name -> CThread
        self.lock = threading.Lock()
        self.parked = threading.Semaphore(0)
        self.current = None

    def spawn(self, name, fn):
        t = CThread(self, name, fn)
        self.threads[name] = t
        return t

    def start(self):
        for t in self.threads.values():
            # (small stacks: thousands of controlled threads come and go)
            old = threading.stack_size(1024 * 1024)
            try:
                t.thread.start()
            finally:
                threading.stack_size(old)
            self.parked.acquire()          # wait until it parks / finishes

    # ----- called from controlled threads
    def me(self):
        ident = threading.get_ident()
        for t in self.threads.values():
            if t.thread.ident == ident:
                return t
        return None

    def yield_point(self, label, blocked=None, can_timeout=False):
        """Park before performing operation `label`.  `blocked` is a callable
        telling whether the operation cannot proceed now (a wait on a clear
        flag).  Returns 'run' or 'timeout'."""
        t = self.me()
        if t is None:
            return 'run'                    # not a controlled thread
        t.label = label
        t.blocked = blocked
        t.can_timeout = can_timeout
        t.state = 'parked'
        self.parked.release()
        t.go.acquire()
        if t.abort:
            raise Abort()
        t.state = 'running'
        return t.choice

    # ----- driver side
    def choices(self):
        """Schedulable (thread, choice) pairs."""
        out = []
        for name in sorted(self.threads):
            t = self.threads[name]
            if t.state != 'parked':
                continue
            if t.blocked is not None and t.blocked():
                if t.can_timeout:
                    out.append((name, 'timeout'))
            else:
                out.append((name, 'run'))
        return out

    def step(self, name, choice):
        t = self.threads[name]
        t.choice = choice
        t.go.release()
        self.parked.acquire()              # until it parks again or finishes

    def label_of(self, name):
        t = self.threads[name]
        return t.label if t.state == 'parked' else t.state

    def teardown(self):
        for t in self.threads.values():
            if t.state == 'parked':
                t.abort = True
                t.go.release()
        for t in self.threads.values():
            t.thread.join(5)


class CThread:
    def __init__(self, sched, name, fn):
        self.sched = sched
        self.name = name
        self.go = threading.Semaphore(0)
        self.state = 'new'
        self.label = None
        self.blocked = None
        self.can_timeout = False
        self.choice = 'run'
        self.abort = False
        self.result = None

        def body():
            try:
                # every thread starts on a gate so that creation order does
                # not decide the first step
                sched.yield_point('start')
                self.result = fn()
                self.state = 'done'
            except Abort:
                self.state = 'aborted'
            except BaseException as e:     # the thread raised
                self.result = ('exc', type(e).__name__)
                self.state = 'done'
            finally:
                sched.parked.release()
        self.thread = threading.Thread(target=body, daemon=True)


class HEvent:
    """threading.Event replacement with yield points."""

    def __init__(self, sched, name, flag=False):
        self.sched = sched
        self.name = name
        self.flag = flag

    def set(self):
        self.sched.yield_point(self.name + '.set')
        self.flag = True

    def clear(self):
        self.sched.yield_point(self.name + '.clear')
        self.flag = False

    def is_set(self):
        return self.flag

    def wait(self, timeout=None):
        c = self.sched.yield_point(self.name + '.wait',
                                   blocked=lambda: not self.flag,
                                   can_timeout=timeout is not None)
        if c == 'timeout':
            return False
        return True


class HList(list):
    """list replacement with yield points on the operations SimpleClient
    uses (truth test / len, append, pop)."""

    def __init__(self, sched, name, *a):
        super().__init__(*a)
        self.sched = sched
        self.name = name

    def __len__(self):
        self.sched.yield_point(self.name + '.len')
        return list.__len__(self)

    def __bool__(self):
        return self.__len__() > 0

    def append(self, x):
        self.sched.yield_point(self.name + '.append')
        list.append(self, x)

    def pop(self, i=-1):
        self.sched.yield_point(self.name + '.pop')
        return list.pop(self, i)

    def raw(self):
        return [list.__getitem__(self, i) for i in range(list.__len__(self))]
