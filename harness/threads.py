"""The threaded Server under the baton scheduler (C20): concurrent
terminations of one client.  Pre-emption at every access the server makes to
the client manager, the transport layer (eio.send), the application's
disconnect handler and the request-environment table."""
import logging
import threading

import engineio
import engineio.packet as eio_packet
import engineio.socket
import socketio

from . import baton, refcodec


class HDict(dict):
    def __init__(self, sched, *a):
        super().__init__(*a)
        self.sched = sched

    def __contains__(self, k):
        self.sched.yield_point('environ.has')
        return dict.__contains__(self, k)

    def __delitem__(self, k):
        self.sched.yield_point('environ.del')
        return dict.__delitem__(self, k)


class WatchDict(dict):
    """A manager table whose reads report to `hook(name)` first (rooms,
    pending_disconnect): is_connected() makes two accesses, and a thread can
    be pre-empted between them."""

    def __init__(self, name, hook, data):
        super().__init__(data)
        self._name = name
        self._hook = hook

    def __contains__(self, k):
        self._hook(self._name)
        return dict.__contains__(self, k)

    def __getitem__(self, k):
        self._hook(self._name)
        return dict.__getitem__(self, k)

    def get(self, k, d=None):
        self._hook(self._name)
        return dict.get(self, k, d)


class _Tap(logging.Handler):
    def __init__(self):
        super().__init__(level=logging.ERROR)
        self.by_thread = {}

    def emit(self, record):
        if record.exc_info and record.exc_info[0] is not None:
            self.by_thread.setdefault(threading.get_ident(), []).append(
                record.exc_info[0].__name__)


class ThreadsAdapter:
    """cfg: ops (list of 'api' | 'api_other' | 'rxdisc' | 'lost'),
    two_ns, bystander."""

    def __init__(self, cfg):
        self.cfg = cfg
        self.sched = None
        self.tap = _Tap()
        self.reset()

    def reset(self):
        if self.sched is not None:
            self.sched.teardown()
        cfg = self.cfg
        self.sched = sched = baton.Sched()
        me = self
        sio = socketio.Server(async_mode='threading', async_handlers=False,
                              ping_timeout=10 ** 6, monitor_clients=False)
        self.sio = sio
        for lg in (sio.eio.logger, sio.logger):
            lg.handlers = [self.tap]
            lg.propagate = False
        self.tap.by_thread = {}
        self.hruns = {'c1': 0, 'cA': 0}
        self.names = {}

        def mk_handler(ns):
            def h(sid, reason):
                sched.yield_point('handler')
                me.hruns[me.names.get(sid, '?')] += 1
            return h
        sio.on('disconnect', mk_handler('/'), namespace='/')
        sio.on('disconnect', mk_handler('/a'), namespace='/a')
        sio.on('connect', lambda sid, environ: None, namespace='/')
        sio.on('connect', lambda sid, environ: None, namespace='/a')

        def open_t(name):
            eid = sio.eio.generate_id()
            s = engineio.socket.Socket(sio.eio, eid)
            sio.eio.sockets[eid] = s
            s.connected = True
            sio.eio._trigger_event('connect', eid, {'t': name})
            return eid, s
        self.eid1, self.s1 = open_t('t1')
        self.s1.receive(eio_packet.Packet(eio_packet.MESSAGE, '0'))
        self.names[sio.manager.sid_from_eio_sid(self.eid1, '/')] = 'c1'
        if cfg.get('two_ns'):
            self.s1.receive(eio_packet.Packet(eio_packet.MESSAGE, '0/a,'))
            self.names[sio.manager.sid_from_eio_sid(self.eid1, '/a')] = 'cA'
        if cfg.get('bystander'):
            self.eid2, self.s2 = open_t('t2')
            self.s2.receive(eio_packet.Packet(eio_packet.MESSAGE, '0'))
            self.names[sio.manager.sid_from_eio_sid(self.eid2, '/')] = 'cB'
        self.rsid = {v: k for k, v in self.names.items()}
        while not self.s1.queue.empty():
            self.s1.queue.get_nowait()
        self.sent = 0
        # ---- instrumentation (instance attributes only)
        self.local = {}     # thread name -> observed thread-local values
        m = sio.manager
        depth = threading.local()

        def wrap(obj, attr, label, on_call=None, on_ret=None):
            orig = getattr(obj, attr)

            def w(*a, **k):
                t = sched.me()
                d = getattr(depth, 'n', 0)
                if t is None or d > 0:
                    return orig(*a, **k)
                depth.n = 1
                try:
                    loc = me.local.setdefault(t.name, {})
                    if on_call:
                        on_call(loc, a, k)
                    sched.yield_point(label)
                    r = orig(*a, **k)
                    if on_ret:
                        on_ret(loc, r)
                    return r
                finally:
                    depth.n = 0
            setattr(obj, attr, w)

        def sid_ns(loc, a, k):
            loc['sid'] = me.names.get(a[0], 'none') if a else 'none'
            loc['ns'] = k.get('namespace', a[1] if len(a) > 1 else '/')

        def on_sid_lookup(loc, a, k):
            loc['sid'] = 'none'
            loc['ns'] = a[1]
            if 'snap' in loc and a[1] in loc['snap']:
                loc['todo'] = loc['snap'][loc['snap'].index(a[1]) + 1:]

        # inside is_connected: the first access to a second table is a
        # pre-emption point of its own
        isc = threading.local()

        def table_read(name):
            c = getattr(isc, 'st', None)
            if c is None or sched.me() is None:
                return
            if c['first'] is None:
                c['first'] = name
            elif name != c['first'] and not c['yielded']:
                c['yielded'] = True
                sched.yield_point('isc.member')

        def isc_call(loc, a, k):
            sid_ns(loc, a, k)
            isc.st = {'first': None, 'yielded': False}

        def isc_ret(loc, r):
            isc.st = None
        m.rooms = WatchDict('rooms', table_read, m.rooms)
        m.pending_disconnect = WatchDict('pending', table_read,
                                         m.pending_disconnect)
        wrap(m, 'can_disconnect', 'm.can_disconnect', isc_call, isc_ret)
        wrap(m, 'is_connected', 'm.is_connected', isc_call, isc_ret)
        def pre_call(loc, a, k):
            sid_ns(loc, a, k)
            loc['dest'] = False

        wrap(m, 'pre_disconnect', 'm.pre_disconnect', pre_call,
             lambda loc, r: loc.__setitem__('dest', r is not None))
        wrap(m, 'disconnect', 'm.disconnect', sid_ns)
        wrap(m, 'sid_from_eio_sid', 'm.sid_from_eio_sid', on_sid_lookup,
             lambda loc, r: loc.__setitem__('sid', me.names.get(r, 'none')))
        wrap(m, 'get_namespaces', 'm.get_namespaces', None,
             lambda loc, r: (loc.__setitem__('snap', list(r)),
                             loc.__setitem__('todo', list(r)[1:])))
        wrap(sio.eio, 'send', 'eio.send')
        sio.environ = HDict(sched, sio.environ)

        def runner(op):
            def f():
                ident = threading.get_ident()
                if op == 'api':
                    me.local[threading.current_thread().name] = {}
                    sio.disconnect(me.rsid['c1'], namespace='/')
                elif op == 'api_other':
                    sio.disconnect(me.rsid['cA'], namespace='/a')
                elif op == 'rxdisc':
                    me.s1.receive(eio_packet.Packet(eio_packet.MESSAGE, '1'))
                elif op == 'lost':
                    me.s1.close(wait=False, abort=True,
                                reason='transport close')
                errs = me.tap.by_thread.get(ident)
                if errs:
                    raise _Contained(errs[0])
                return 'ok'
            return f
        for i, op in enumerate(cfg['ops']):
            sched.spawn('T%d' % (i + 1), runner(op))
        sched.start()

    def close(self):
        if self.sched is not None:
            self.sched.teardown()
            self.sched = None

    def apply(self, a):
        self.sched.step('T%d' % a['i'], 'run')
        return {}

    def project(self):
        sio = self.sio
        m = sio.manager

        def member(name):
            sid = self.rsid.get(name)
            ns = '/a' if name == 'cA' else '/'
            return sid is not None and sid in m.rooms.get(ns, {}).get(None,
                                                                       {})
        pend = {}
        for name in ('c1', 'cA'):
            ns = '/a' if name == 'cA' else '/'
            pend[name] = list(m.pending_disconnect.get(ns, [])).count(
                self.rsid.get(name))
        sent = 0
        q = self.s1.queue
        items = []
        while not q.empty():
            p = q.get_nowait()
            if p is not None:
                items.append(p)
        for p in items:
            q.put(p)
        for p in items:
            if p.packet_type == eio_packet.MESSAGE and isinstance(
                    p.data, str) and p.data.startswith('1'):
                sent += 1
        th = []
        for i, op in enumerate(self.cfg['ops']):
            name = 'T%d' % (i + 1)
            t = self.sched.threads[name]
            loc = self.local.get(name, {})
            if t.state == 'parked':
                pc = t.label
                res = ''
            else:
                pc = 'done'
                r = t.result
                res = 'ok' if r == 'ok' else r[1] if isinstance(
                    r, tuple) else str(r)
            started = pc != 'start'
            sid = loc.get('sid', 'none')
            ns = loc.get('ns', '')
            if started and op == 'api' and 'sid' not in loc:
                sid, ns = 'c1', '/'
            th.append({'op': op, 'pc': pc, 'sid': sid if started else 'none',
                       'todo': list(loc.get('todo', [])) if op == 'lost'
                       else [],
                       'ns': ns if started else '',
                       'dest': bool(loc.get('dest', False)), 'res': res})
        return {'member': {'c1': member('c1'), 'cA': member('cA'),
                           'cB': member('cB')},
                'pending': pend, 'hruns': dict(self.hruns),
                'environ': dict.__contains__(sio.environ, self.eid1),
                'sent': sent, 'open': not self.s1.closed, 'th': th,
                'cb': _cb_count(m, self.rsid.get('c1')),
                'runnable': [i + 1 for i in range(len(self.cfg['ops']))
                             if self.sched.threads['T%d' % (i + 1)].state
                             == 'parked']}


def _cb_count(m, sid):
    """What the manager keeps for the client's callbacks: outstanding
    entries, or at least an id counter."""
    n = len([v for v in dict.get(m.callbacks, sid, {}).values()
             if callable(v)])
    if n == 0 and sid in getattr(m, 'ack_counters', {}):
        n = 1
    return n


ALL_LABELS = ['start', 'm.can_disconnect', 'm.is_connected', 'isc.member',
              'm.pre_disconnect', 'eio.send', 'handler', 'm.disconnect',
              'm.get_namespaces', 'm.sid_from_eio_sid', 'environ.has',
              'environ.del']
ASYNC_LABELS = ['start', 'eio.send', 'eio.send_ev', 'task.start', 'handler']


class _Contained(Exception):
    def __init__(self, name):
        super().__init__(name)
        self.__class__ = type(name, (Exception,), {})


def alphabet(cfg):
    return [{'i': i + 1} for i in range(len(cfg['ops']))]


def enabled(state, a):
    return a['i'] in state['runnable']


CONFIGS = {}
for _ops in (['api', 'rxdisc'], ['api', 'lost'], ['rxdisc', 'lost'],
             ['api', 'api'], ['api', 'rxdisc', 'lost'],
             ['api_other', 'lost'], ['api', 'api_other'],
             ['api_other', 'rxdisc', 'lost']):
    for _by in (False, True):
        _two = 'api_other' in _ops
        for _t in ([False, True] if not _two else [True]):
            CONFIGS['thr_%s_%s%s' % ('+'.join(_ops), 'by' if _by else 'al',
                                     '_2ns' if _t else '')] = dict(
                ops=_ops, bystander=_by, two_ns=_t, dev=['D7'])
