"""A fake of the `redis` client library, just enough for
socketio.redis_manager / async_redis_manager, with SCRIPTED failures.  It
lives on sys.path of the C15 Redis sub-check only (never in /repo).

CONTROL.script is a list of steps consumed in order by whichever operation
comes next; a step names the operation it answers:
  ('connect', 'ok' | 'err')      Redis.from_url / pubsub()
  ('subscribe', 'ok' | 'err')
  ('listen', [items...])         one call of pubsub.listen(): items are
        ('msg', data) | ('other', data) (a message for another channel) |
        ('sub',) (a subscribe confirmation) | ('err',) (RedisError raised
        by the iterator)
  ('publish', 'ok' | 'err')
Every operation appends what happened to CONTROL.log.  When the script runs
out the fake raises ScriptEnd (a BaseException) to stop the scenario.
"""
from . import exceptions  # noqa


class ScriptEnd(BaseException):
    pass


class Control:
    def __init__(self):
        self.script = []
        self.log = []
        self.channel = b'socketio'

    def take(self, op):
        if not self.script:
            raise ScriptEnd()
        step = self.script.pop(0)
        if step[0] != op:
            self.log.append(['UNEXPECTED', op, 'script-wanted', step[0]])
            raise ScriptEnd()
        return step


CONTROL = Control()


class PubSub:
    def __init__(self, owner):
        self.owner = owner

    def subscribe(self, channel):
        step = CONTROL.take('subscribe')
        CONTROL.log.append(['Subscribe', step[1], self.owner.gen])
        if step[1] == 'err':
            raise exceptions.RedisError('subscribe failed')

    def unsubscribe(self, channel):
        CONTROL.log.append(['Unsubscribe'])

    def listen(self):
        step = CONTROL.take('listen')
        CONTROL.log.append(['Listen', self.owner.gen])
        for item in step[1]:
            if item[0] == 'err':
                CONTROL.log.append(['ListenError'])
                raise exceptions.ConnectionError('connection lost')
            if item[0] == 'msg':
                yield {'type': 'message', 'channel': CONTROL.channel,
                       'data': item[1]}
            elif item[0] == 'other':
                yield {'type': 'message', 'channel': b'another',
                       'data': item[1]}
            elif item[0] == 'sub':
                yield {'type': 'subscribe', 'channel': CONTROL.channel,
                       'data': 1}
        # a listen() that simply ends: the library's loop calls it again
        CONTROL.log.append(['ListenEnded'])


class Redis:
    generation = 0

    def __init__(self):
        Redis.generation += 1
        self.gen = Redis.generation

    @classmethod
    def from_url(cls, url, **kw):
        step = CONTROL.take('connect')
        CONTROL.log.append(['Connect', step[1]])
        if step[1] == 'err':
            raise exceptions.ConnectionError('cannot connect')
        return cls()

    def pubsub(self, **kw):
        return PubSub(self)

    def publish(self, channel, data):
        step = CONTROL.take('publish')
        CONTROL.log.append(['Publish', step[1], self.gen])
        if step[1] == 'err':
            raise exceptions.ConnectionError('cannot publish')
        return 1
