"""redis.asyncio of the fake: same script, coroutine API."""
from . import CONTROL, exceptions


class PubSub:
    def __init__(self, owner):
        self.owner = owner

    async def subscribe(self, channel):
        step = CONTROL.take('subscribe')
        CONTROL.log.append(['Subscribe', step[1], self.owner.gen])
        if step[1] == 'err':
            raise exceptions.RedisError('subscribe failed')

    async def unsubscribe(self, channel):
        CONTROL.log.append(['Unsubscribe'])

    async def listen(self):
        step = CONTROL.take('listen')
        CONTROL.log.append(['Listen', self.owner.gen])
        for item in step[1]:
            if item[0] == 'err':
                CONTROL.log.append(['ListenError'])
                raise exceptions.ConnectionError('connection lost')
            if item[0] == 'msg':
                yield {'type': 'message', 'channel': CONTROL.channel,
                       'data': item[1]}
            elif item[0] == 'other':
                yield {'type': 'message', 'channel': b'another',
                       'data': item[1]}
            elif item[0] == 'sub':
                yield {'type': 'subscribe', 'channel': CONTROL.channel,
                       'data': 1}
        CONTROL.log.append(['ListenEnded'])


class Redis:
    generation = 1000

    def __init__(self):
        Redis.generation += 1
        self.gen = Redis.generation

    @classmethod
    def from_url(cls, url, **kw):
        step = CONTROL.take('connect')
        CONTROL.log.append(['Connect', step[1]])
        if step[1] == 'err':
            raise exceptions.ConnectionError('cannot connect')
        return cls()

    def pubsub(self, **kw):
        return PubSub(self)

    async def publish(self, channel, data):
        step = CONTROL.take('publish')
        CONTROL.log.append(['Publish', step[1], self.gen])
        if step[1] == 'err':
            raise exceptions.ConnectionError('cannot publish')
        return 1
