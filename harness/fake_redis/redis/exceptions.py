class RedisError(Exception):
    pass


class ConnectionError(RedisError):
    pass
