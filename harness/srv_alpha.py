"""Alphabets (finite action sets) for the SioServer configurations.  The same
list is given to the Python explorer and, as a literal, to TLC."""


def sid(i):
    return 's%d' % i


def need_of(tokens):
    n = 0
    for x in tokens:
        if isinstance(x, str) and len(x) > 1 and x[0] == 's' and \
                x[1:].isdigit():
            n = max(n, int(x[1:]))
    return n


def mk(act, **kw):
    a = {'act': act, 'live': False}
    a.update(kw)
    toks = [v for v in kw.values() if isinstance(v, str)]
    for v in kw.values():
        if isinstance(v, list):
            toks += v
    a['need'] = need_of(toks)
    return a


def base(cfg):
    """Transport open/close, connects, disconnects."""
    T = cfg['transports']
    A = []
    for i, t in enumerate(T):
        A.append(mk('EioOpen', t=t, after=T[i - 1] if i else ''))
    for t in T:
        for r in cfg.get('lost_reasons', ['transport close']):
            A.append(mk('EioLost', t=t, reason=r))
    for t in T:
        for ns in cfg['ns_all']:
            for auth in cfg.get('auths', ['absent']):
                A.append(mk('RxConnect', t=t, ns=ns, auth=auth))
        for ns in cfg.get('ns_disc', cfg['ns_all']):
            A.append(mk('RxDisconnect', t=t, ns=ns))
    S = [sid(i) for i in range(1, cfg['max_sid'] + 1)]
    for s in S:
        for ns in cfg['ns_api']:
            A.append(mk('Disconnect', sid=s, ns=ns))
    return A


def rooms(cfg):
    A = base(cfg)
    S = [sid(i) for i in range(1, cfg['max_sid'] + 1)]
    R = cfg['rooms']
    for ns in cfg['ns_api']:
        for s in S:
            for r in R:
                A.append(mk('EnterRoom', sid=s, room=r, ns=ns))
                A.append(mk('LeaveRoom', sid=s, room=r, ns=ns))
            A.append(mk('Rooms', sid=s, ns=ns))
        for r in R:
            A.append(mk('CloseRoom', room=r, ns=ns))
    for ns in cfg['ns_api']:
        for tk, to in cfg['emit_to']:
            for sk, skip in cfg['emit_skip']:
                A.append(mk('Emit', ns=ns, toKind=tk, to=to, skipKind=sk,
                            skip=skip, ev='msg', data='v1', cb=''))
    return A


def enabled(cfg):
    T = cfg['transports']
    max_sid = cfg['max_sid']
    max_ack = cfg.get('max_ack', 0)

    def en(s, a):
        if not s['nextSid'] > a['need']:
            return False
        act = a['act']
        if a['live'] and a['sid'] not in s['rooms'].get(
                a['ns'], {}).get('None', {}):
            return False
        if act == 'EioOpen':
            return s['eio'][a['t']] == 'none' and (
                a['after'] == '' or s['eio'][a['after']] != 'none')
        if act in ('EioLost', 'RxFuzz'):
            return s['eio'][a['t']] == 'open'
        if act == 'SessionBlockD':
            t = s['rooms'].get(a['ns'], {}).get('None', {}).get(a['sid'])
            return t is not None and s['eio'][t] == 'open' and \
                t not in s['binbuf'] and s['nextSid'] <= max_sid and \
                a['newsid'] == 's%d' % s['nextSid']
        if act == 'RxConnect':
            return s['eio'][a['t']] == 'open' and s['nextSid'] <= max_sid \
                and a['t'] not in s['binbuf']
        if act in ('RxDisconnect', 'RxEvent', 'RxAck', 'RxAckDup', 'RxRaw'):
            return s['eio'][a['t']] == 'open' and a['t'] not in s['binbuf']
        if act == 'RxFrame':
            if s['eio'][a['t']] != 'open':
                return False
            if a['kind'] in ('hdr', 'hdrbad'):
                return a['t'] not in s['binbuf']
            if a['kind'] == 'text' and a['t'] not in s['binbuf']:
                return False
            return a['t'] not in s['binbuf'] or \
                len(s['binbuf'][a['t']]['atts']) < 3
        if act == 'Emit':
            return a['cb'] == '' or all(
                c['next'] <= max_ack for c in s['cb'].values())
        if act == 'Call':
            return all(c['next'] <= max_ack for c in s['cb'].values())
        return True
    return en


CONFIGS = {}

CONFIGS['rooms'] = dict(
    transports=['t1', 't2'], ns_h=['/', '/a'], ns_all=['/', '/a', '/x'],
    ns_api=['/', '/a'], max_sid=3, rooms=['r1', 's1'],
    emit_to=[('none', []), ('one', ['r1']), ('one', ['s3']),
             ('list', ['r1', 's1']), ('list', ['s2', 'r1', 's3'])],
    emit_skip=[('none', []), ('list', ['s1', 's2'])],
    alpha='rooms')
# three rooms, one namespace
CONFIGS['rooms3'] = dict(
    transports=['t1', 't2', 't3'], ns_h=['/'], ns_all=['/', '/x'],
    ns_api=['/'], max_sid=3, rooms=['r1', 'r2', 's1'],
    emit_to=[('none', []), ('one', ['r1']), ('one', ['r2']), ('one', ['s1']),
             ('list', ['r1', 'r2']), ('list', ['r2', 's2', 'r1'])],
    emit_skip=[('none', []), ('one', ['s2']), ('list', ['s1', 's3'])],
    alpha='rooms')

CONFIGS['rooms_quick'] = dict(
    transports=['t1', 't2'], ns_h=['/', '/a'], ns_all=['/', '/a', '/x'],
    ns_api=['/', '/a'], max_sid=2, rooms=['r1', 's1'],
    emit_to=[('none', []), ('one', ['r1']), ('one', ['s1']), ('one', ['s2']),
             ('list', ['r1', 's1']), ('list', ['r1', 'r1'])],
    emit_skip=[('none', []), ('one', ['s1']), ('list', ['s1', 's2'])],
    alpha='rooms')


# ---------------------------------------------------------------- lifecycle
def lifecycle(cfg):
    A = base(cfg)
    S = [sid(i) for i in range(1, cfg['max_sid'] + 1)]
    for ns in cfg['ns_api']:
        A.append(mk('Emit', ns=ns, toKind='none', to=[], skipKind='none',
                    skip=[], ev='msg', data='v1', cb=''))
        for s in S:
            A.append(mk('Emit', ns=ns, toKind='one', to=[s], skipKind='none',
                        skip=[], ev='msg', data='v1', cb=''))
            A.append(mk('Rooms', sid=s, ns=ns))
            A.append(mk('GetEnviron', sid=s, ns=ns))
    return A


_LC = dict(transports=['t1', 't2'], ns_h=['/', '/a'],
           ns_all=['/', '/a', '/b', '/x'], ns_api=['/', '/a', '/b'],
           ns_disc=['/', '/a', '/b'], max_sid=3,
           auths=['absent', 'auth:ok', 'auth:false', 'auth:ref0', 'auth:ref1',
                  'auth:ref2', 'auth:ref3', 'v1', 'absent:ref2',
                  'absent:false'],
           # (every reason engine.io reports for the end of a transport)
           lost_reasons=['transport close', 'ping timeout',
                         'client disconnect', 'server disconnect',
                         'transport error'],
           alpha='lifecycle')
for _ac in (False, True):
    for _hk in ('fn', 'class'):
        for _no, _nn in (('default', 'd'), (['/', '/b'], 'l'), ('*', 's')):
            CONFIGS['lifecycle_%s_%s_%s' % ('ac' if _ac else 'nc', _hk, _nn)] \
                = dict(_LC, always_connect=_ac, hkind=_hk, ns_opt=_no)
CONFIGS['lifecycle_quick'] = dict(
    _LC, transports=['t1'], max_sid=2, ns_opt=['/', '/b'],
    ns_all=['/', '/a', '/b', '/x'],
    lost_reasons=['transport close', 'client disconnect',
                  'server disconnect'])
CONFIGS['lifecycle_quick_ac'] = dict(CONFIGS['lifecycle_quick'],
                                     always_connect=True, hkind='class')


# ------------------------------------------------------------------- events
EVS = ['e_none', 'e_v', 'e_z', 'e_f', 'e_es', 'e_el', 'e_ed', 'e_h',
       'e_list', 'e_dict', 'e_tup0', 'e_tup1', 'e_tup2', 'e_bin', 'e_tbin',
       'e_ddb', 'e_unh']


def events(cfg):
    A = base(cfg)
    for t in cfg['transports']:
        for ns in cfg['ns_all']:
            for ev in cfg.get('evs', EVS):
                for id in cfg['ids']:
                    A.append(mk('RxEvent', t=t, ns=ns, id=id, ev=ev,
                                args=['v1']))
            for args in ([], ['d1', 'l1'], ['n1', 'z0', 'f1'], ['h1', 'es']):
                for id in cfg['ids'][-2:]:
                    A.append(mk('RxEvent', t=t, ns=ns, id=id, ev='e_v',
                                args=args))
        for ns in cfg['ns_api']:
            for n in (1, 2):
                A.append(mk('RxFrame', t=t, kind='hdr', ty='BINARY_EVENT',
                            ns=ns, id=cfg['ids'][-1], ev='e_tup2', n=n))
        A.append(mk('RxFrame', t=t, kind='att', b='b1'))
        A.append(mk('RxFrame', t=t, kind='att', b='b2'))
        A.append(mk('RxFrame', t=t, kind='text', b='tx1'))
    return _mp_filter(cfg, A)


_EV = dict(transports=['t1', 't2'], ns_h=['/', '/a'], ns_all=['/', '/a', '/x'],
           ns_api=['/', '/a'], max_sid=3, ids=[-1, 0, 7], alpha='events')
for _ah in (False, True):
    for _hk in ('fn', 'class'):
        CONFIGS['events_%s_%s' % ('bg' if _ah else 'inl', _hk)] = dict(
            _EV, async_handlers=_ah, hkind=_hk)
CONFIGS['events_t_fn'] = dict(_EV, max_sid=2, hkind='fn')
CONFIGS['events_t_class_bg'] = dict(_EV, max_sid=2, hkind='class',
                                    async_handlers=True)
CONFIGS['events_quick'] = dict(_EV, max_sid=2, ns_h=['/', '/a'],
                               ns_all=['/', '/a'], ids=[-1, 0, 7],
                               evs=['e_none', 'e_v', 'e_z', 'e_el', 'e_h',
                                    'e_tup2', 'e_bin', 'e_ddb', 'e_unh',
                                    'e_raise'])
CONFIGS['events_quick_bg'] = dict(CONFIGS['events_quick'],
                                  async_handlers=True, hkind='class')


# --------------------------------------------------------------------- acks
def acks(cfg):
    A = base(cfg)
    S = [sid(i) for i in range(1, cfg['max_sid'] + 1)]
    for ns in cfg['ns_api']:
        for s in S:
            for tag in ('c1', 'c2'):
                A.append(mk('Emit', ns=ns, toKind='one', to=[s],
                            skipKind='none', skip=[], ev='msg', data='v1',
                            cb=tag))
        # a callback on an emit to a group, with and without exclusions
        A.append(mk('Emit', ns=ns, toKind='none', to=[], skipKind='one',
                    skip=[S[0]], ev='msg', data='v1', cb='c1'))
        if cfg.get('group_cb', True):
            A.append(mk('Emit', ns=ns, toKind='none', to=[], skipKind='none',
                        skip=[], ev='msg', data='v1', cb='c2'))
    for t in cfg['transports']:
        for ns in cfg['ns_all']:
            for id in cfg['ack_ids']:
                for args in cfg.get('ack_args', ([], ['v1'], ['v1', 'v2'])):
                    A.append(mk('RxAck', t=t, ns=ns, id=id, args=args))
                A.append(mk('RxAckDup', t=t, ns=ns, id=id, args=['v1']))
        for ns in cfg['ns_api']:
            A.append(mk('RxFrame', t=t, kind='hdr', ty='BINARY_ACK', ns=ns,
                        id=1, ev='', n=1))
        A.append(mk('RxFrame', t=t, kind='att', b='b1'))
    return _mp_filter(cfg, A)


CONFIGS['acks'] = dict(transports=['t1', 't2'], ns_h=['/', '/a'],
                       ns_all=['/', '/a'], ns_api=['/', '/a'], max_sid=3,
                       max_ack=2, ack_ids=[0, 1, 2, 3, 99], alpha='acks')
# (the exhaustive tiers stay within ~10^6 edges; larger scopes are walked)
CONFIGS['acks_t'] = dict(CONFIGS['acks'], ack_ids=[0, 1, 2, 99],
                         ack_args=[[], ['v1', 'v2']], ns_h=['/'],
                         ns_api=['/'], ns_opt=['/', '/a'])
CONFIGS['acks_quick'] = dict(CONFIGS['acks'], transports=['t1', 't2'],
                             ns_h=['/'], ns_all=['/', '/a'], ns_api=['/'],
                             ns_opt=['/', '/a'], max_sid=2, max_ack=2,
                             ack_ids=[0, 1, 2, 9], ack_args=[[], ['v1', 'v2']])


# ----------------------------------------------------------------- sessions
def sessions(cfg):
    A = base(cfg)
    S = [sid(i) for i in range(1, cfg['max_sid'] + 1)]
    for ns in cfg['ns_api']:
        for s in S:
            # the value names its writer, so a foreign value is recognisable
            w = 'w_%s_%s' % (s, 'root' if ns == '/' else ns.strip('/'))
            A.append(mk('SaveSession', sid=s, ns=ns, val=w))
            A.append(mk('SessionBlock', sid=s, ns=ns,
                        val=w + cfg.get('block_suffix', 'b')))
            A.append(mk('SessionNested', sid=s, ns=ns,
                        val=w + cfg.get('block_suffix', 'b')))
            A.append(mk('GetSession', sid=s, ns=ns))
            # a block that stays open while its client leaves, comes back
            # as the next session id and has a session saved
            for k in range(2, cfg['max_sid'] + 1):
                n = sid(k)
                a = mk('SessionBlockD', sid=s, ns=ns, live=True,
                       val=w + cfg.get('block_suffix', 'b'), newsid=n,
                       val2='w_%s_%s' % (n, 'root' if ns == '/'
                                         else ns.strip('/')))
                a['need'] = need_of([s])    # (newsid is allocated BY it)
                A.append(a)
    return A


CONFIGS['sessions'] = dict(transports=['t1', 't2'], ns_h=['/', '/a'],
                           ns_all=['/', '/a'], ns_api=['/', '/a'], max_sid=4,
                           alpha='sessions', dev=['D6'])
CONFIGS['sessions_t'] = dict(CONFIGS['sessions'], max_sid=3)
CONFIGS['sessions_quick'] = dict(CONFIGS['sessions'], max_sid=3,
                                 block_suffix='')
# two different values per (client, namespace): a save that does not REPLACE
# the stored session shows
CONFIGS['sessions_quick_b'] = dict(CONFIGS['sessions'], max_sid=2)


# ------------------------------------------------------------------ residue
def residue(cfg):
    A = base(cfg)
    plain = cfg.get('plain_transports', [])
    # bystander transports only connect (normally), disconnect and get lost
    A = [a for a in A if not (a.get('t') in plain and a['act'] == 'RxConnect'
                              and a['auth'] != 'absent')]
    S = [sid(i) for i in range(1, cfg['max_sid'] + 1)]
    for t in cfg['transports']:
        if t in plain:
            continue
        for ns in cfg['ns_all']:
            A.append(mk('RxEvent', t=t, ns=ns, id=7, ev='e_v', args=['v1']))
            A.append(mk('RxEvent', t=t, ns=ns, id=-1, ev='e_raise', args=[]))
        A.append(mk('RxFrame', t=t, kind='hdr', ty='BINARY_EVENT', ns='/',
                    id=-1, ev='e_v', n=2))
        A.append(mk('RxFrame', t=t, kind='att', b='b1'))
        # ... and callbacks that WERE answered before the client left
        for ns in cfg['ns_all']:
            A.append(mk('RxAck', t=t, ns=ns, id=1, args=['v1']))
    for ns in cfg['ns_api']:
        for s in S:
            A.append(mk('Emit', ns=ns, toKind='one', to=[s], skipKind='none',
                        skip=[], ev='msg', data='v1', cb='c1'))
            A.append(mk('EnterRoom', sid=s, room='r1', ns=ns, live=True))
            # ... also for a client that is gone already (a handler that was
            # still running for it): refused, nothing is left behind
            A.append(mk('EnterRoom', sid=s, room='r1', ns=ns, live=False))
            A.append(mk('SaveSession', sid=s, ns=ns, val='w1'))
        A.append(mk('Arm', ns=ns))
    return A


CONFIGS['residue'] = dict(transports=['t1', 't2'], ns_h=['/', '/a'],
                          ns_all=['/', '/a'], ns_api=['/', '/a'], max_sid=3,
                          max_ack=1, auths=['absent', 'auth:false',
                                            'auth:raise'],
                          alpha='residue', dev=['D3', 'D6'])
CONFIGS['residue'] = dict(CONFIGS['residue'], plain_transports=['t2'])
CONFIGS['residue_t'] = dict(CONFIGS['residue'], transports=['t1'],
                            plain_transports=[], max_sid=3)
CONFIGS['residue_ac_quick'] = dict(CONFIGS['residue'], transports=['t1'],
                                   plain_transports=[], max_sid=2,
                                   always_connect=True, ns_h=['/'],
                                   ns_all=['/'], ns_api=['/'])
CONFIGS['residue_quick'] = dict(CONFIGS['residue'], transports=['t1'],
                                max_sid=2)


# ------------------------------------------------------------------ hostile
def hostile(cfg):
    from .srv import RAW_CLASS, MP_RAW_CLASS
    if cfg.get('serializer') == 'msgpack':
        RAW_CLASS = MP_RAW_CLASS
    A = base(cfg)
    off = cfg['offender']
    S = [sid(i) for i in range(1, cfg['max_sid'] + 1)]
    # bystanders only behave; the offender also misbehaves
    for t in cfg['transports']:
        A.append(mk('RxEvent', t=t, ns='/', id=7, ev='e_v', args=['v1']))
    for ns in cfg['ns_api']:
        for s in S:
            A.append(mk('Emit', ns=ns, toKind='one', to=[s], skipKind='none',
                        skip=[], ev='msg', data='v1', cb='c1'))
            A.append(mk('EnterRoom', sid=s, room='r1', ns=ns, live=True))
            A.append(mk('SaveSession', sid=s, ns=ns, val='w_' + s))
        A.append(mk('Emit', ns=ns, toKind='one', to=['r1'], skipKind='none',
                    skip=[], ev='msg', data='v1', cb=''))
    for name in sorted(RAW_CLASS):
        if name in cfg.get('raw', RAW_CLASS):
            A.append(mk('RxRaw', t=off, frame=name, **{'class': RAW_CLASS[name]}))
    for ns in cfg['ns_all']:
        for id in (1, 2, 999999999):
            A.append(mk('RxAck', t=off, ns=ns, id=id, args=['v1']))
        A.append(mk('RxEvent', t=off, ns=ns, id=999999999, ev='e_v',
                    args=['v1']))
    A.append(mk('RxEvent', t=off, ns='/x', id=7, ev='e_v', args=['v1']))
    for n in (0, 2, 999999999):
        A.append(mk('RxFrame', t=off, kind='hdr', ty='BINARY_EVENT', ns='/',
                    id=-1, ev='e_v', n=n))
    A.append(mk('RxFrame', t=off, kind='hdr', ty='BINARY_ACK', ns='/', id=1,
                ev='', n=1))
    # binary packets whose placeholders point outside the attachments
    A.append(mk('RxFrame', t=off, kind='hdrbad', ty='BINARY_EVENT', ns='/',
                id=7, ev='e_v', n=1))
    A.append(mk('RxFrame', t=off, kind='hdrbad', ty='BINARY_ACK', ns='/', id=1,
                ev='', n=1))
    A.append(mk('RxFrame', t=off, kind='att', b='b1'))
    if cfg.get('serializer') == 'msgpack':
        # only a serializer without a wire grammar can even name it: the
        # namespace literally called "*" (the key of the catch-all handlers)
        A.append(mk('RxConnect', t=off, ns='*', auth='absent'))
        A.append(mk('RxEvent', t=off, ns='*', id=7, ev='e_v', args=['v1']))
    return _mp_filter(cfg, A)


def hostile_fuzz(cfg):
    """Random tier of C12: the offender sends arbitrary frames (harness/fuzz.py)
    and, apart from opening, connecting and losing its transport, nothing
    else; the bystanders behave, the application uses its API."""
    A = [a for a in hostile(cfg)
         if a.get('t') != cfg['offender'] or
         a['act'] in ('EioOpen', 'EioLost', 'RxConnect')]
    for k in range(cfg['fuzz_frames']):
        A.append(mk('RxFuzz', t=cfg['offender'], seed=k))
    return A


def _mp_filter(cfg, A):
    """The msgpack serializer has no multi-frame packets: a packet claiming
    to be binary always announces 0 attachments."""
    if cfg.get('serializer') != 'msgpack':
        return A
    return [a for a in A if not (a['act'] == 'RxFrame' and
                                 a['kind'] in ('hdr', 'hdrbad') and
                                 a['n'] != 0)]


CONFIGS['hostile'] = dict(transports=['t1', 't2', 't3'], offender='t1',
                          ns_h=['/', '/a'], ns_all=['/', '/a'],
                          ns_api=['/', '/a'], max_sid=3, max_ack=2,
                          alpha='hostile', dev=['D6'])
CONFIGS['hostile_t'] = dict(CONFIGS['hostile'], transports=['t1', 't2'],
                             max_sid=2, max_ack=1)
# (walks only: an arbitrary frame has no modelled effect on its sender)
CONFIGS['hostile_fuzz'] = dict(CONFIGS['hostile'], alpha='hostile_fuzz',
                               fuzz_frames=80, max_sid=6, max_ack=2)
CONFIGS['hostile_fuzz_mp'] = dict(CONFIGS['hostile_fuzz'],
                                  serializer='msgpack')
CONFIGS['hostile_quick'] = dict(CONFIGS['hostile'], transports=['t1', 't2'],
                                ns_api=['/'], max_sid=2, max_ack=1,
                                raw=['empty', 'type9', 'connerr', 'badjson',
                                     'dictpayload', 'emptylist', 'numpayload',
                                     'longid', 'deepjson', 'bytes', 'count11',
                                     'strpayload', 'intevent', 'acknum', 'longnum',
                                     'longnumack', 'longnumconn',
                                     'evunknownns', 'ackunknownns',
                                     'bytesevent', 'bytesdisc', 'bytesconn'])

# the same isolation claim for servers using the msgpack serializer
CONFIGS['hostile_mp_quick'] = dict(
    CONFIGS['hostile_quick'], serializer='msgpack',
    raw=sorted(['garbage', 'empty', 'text', 'int', 'list', 'nil', 'notype',
                'nonsp', 'connerr', 'type9', 'typestr', 'dictpayload',
                'nodata', 'emptylist', 'deep', 'evunknownns',
                'ackunknownns', 'intevent', 'surplus']))
CONFIGS['events_mp_quick'] = dict(CONFIGS['events_quick'],
                                  serializer='msgpack',
                                  evs=['e_none', 'e_v', 'e_z', 'e_el', 'e_h',
                                       'e_tup2', 'e_unh', 'e_raise'])
CONFIGS['acks_mp_quick'] = dict(CONFIGS['acks_quick'], serializer='msgpack')


# ------------------------------------------------------------ server call()
def calls(cfg):
    A = base(cfg)
    S = [sid(i) for i in range(1, cfg['max_sid'] + 1)]
    T = cfg['transports']

    def ack(t, id, args, ns='/'):
        return {'act': 'RxAck', 't': t, 'ns': ns, 'id': id, 'args': args}

    def lost(t):
        return {'act': 'EioLost', 't': t, 'reason': 'transport close'}
    durings = [[]]
    for t in T:
        for id in cfg['call_ack_ids']:
            durings.append([ack(t, id, [])])
            durings.append([ack(t, id, ['v1'])])
        durings.append([ack(t, 1, ['v1', 'v2'])])
        durings.append([ack(t, 1, ['z0'])])       # one falsy value is a value
        durings.append([ack(t, 1, ['el'])])
        durings.append([lost(t)])
        durings.append([lost(t), ack(t, 1, ['v1'])])
        durings.append([ack(t, 1, ['v1']), ack(t, 1, ['v2'])])
    durings.append([ack(T[0], 1, ['v1'], ns='/a')])
    for ns in cfg['ns_api']:
        for s in S:
            for d in durings:
                A.append(mk('Call', sid=s, ns=ns, ev='q', during=d,
                            early=False, before=[]))
            # ... and the same arriving before call() has begun to wait
            for d in durings[1:4] + durings[6:8]:
                A.append(mk('Call', sid=s, ns=ns, ev='q', during=d,
                            early=True, before=[]))
            # ... or while call() is still preparing (before the event went
            # out: an ACK for an id not issued yet, a loss of the transport)
            for t in T:
                A.append(mk('Call', sid=s, ns=ns, ev='q', during=[],
                            early=False, before=[ack(t, 1, ['v1'])]))
                A.append(mk('Call', sid=s, ns=ns, ev='q',
                            during=[ack(t, 1, ['v2'])], early=False,
                            before=[ack(t, 1, ['v1'])]))
                A.append(mk('Call', sid=s, ns=ns, ev='q',
                            during=[ack(t, 1, ['v1'])], early=False,
                            before=[lost(t)]))
            A.append(mk('Emit', ns=ns, toKind='one', to=[s], skipKind='none',
                        skip=[], ev='msg', data='v1', cb='c1'))
    for t in T:
        for ns in cfg['ns_api']:
            for id in cfg['call_ack_ids']:
                A.append(mk('RxAck', t=t, ns=ns, id=id, args=['v1']))
    return A


CONFIGS['calls_quick'] = dict(transports=['t1', 't2'], ns_h=['/'],
                              ns_all=['/'], ns_api=['/'], max_sid=2,
                              max_ack=2, call_ack_ids=[1, 2],
                              async_handlers=True, alpha='calls')
CONFIGS['calls_inline'] = dict(CONFIGS['calls_quick'], async_handlers=False,
                               transports=['t1'], max_sid=1)
CONFIGS['calls'] = dict(CONFIGS['calls_quick'], ns_h=['/', '/a'],
                        ns_all=['/', '/a'], ns_api=['/', '/a'], max_sid=3,
                        call_ack_ids=[0, 1, 2, 3])
CONFIGS['calls_t'] = dict(CONFIGS['calls_quick'], max_sid=3,
                          call_ack_ids=[0, 1, 2])

# ---- larger scopes, explored by seeded random histories only (walks)
CONFIGS['rooms_big'] = dict(
    transports=['t1', 't2', 't3', 't4'], ns_h=['/', '/a'],
    ns_all=['/', '/a', '/b', '/x'], ns_api=['/', '/a', '/b'],
    ns_opt=['/', '/a', '/b'], max_sid=7, rooms=['r1', 'r2', 'r3', 's1', 's3'],
    emit_to=[('none', []), ('one', ['r1']), ('one', ['r2']), ('one', ['s1']),
             ('one', ['s2']), ('one', ['s4']), ('list', ['r1', 'r2']),
             ('list', ['r3', 's1', 'r1']), ('list', ['r2', 'r2']),
             ('list', ['s2', 's3', 's5'])],
    emit_skip=[('none', []), ('one', ['s1']), ('one', ['s3']),
               ('list', ['s1', 's2', 's4']), ('list', ['s6'])],
    alpha='rooms')
CONFIGS['acks_big'] = dict(CONFIGS['acks'], transports=['t1', 't2', 't3'],
                           max_sid=6, max_ack=4,
                           ack_ids=[0, 1, 2, 3, 4, 5, 99])
CONFIGS['sessions_big'] = dict(CONFIGS['sessions'],
                               transports=['t1', 't2', 't3'], max_sid=8)
CONFIGS['residue_big'] = dict(CONFIGS['residue'],
                              transports=['t1', 't2', 't3'], max_sid=7,
                              max_ack=2, plain_transports=['t3'])
CONFIGS['calls_big'] = dict(CONFIGS['calls'], transports=['t1', 't2', 't3'],
                            max_sid=5, max_ack=4)
