"""Alphabets (finite action sets) for the SioServer configurations.  The same
list is given to the Python explorer and, as a literal, to TLC."""


def sid(i):
    return 's%d' % i


def need_of(tokens):
    n = 0
    for x in tokens:
        if isinstance(x, str) and len(x) > 1 and x[0] == 's' and \
                x[1:].isdigit():
            n = max(n, int(x[1:]))
    return n


def mk(act, **kw):
    a = {'act': act}
    a.update(kw)
    toks = [v for v in kw.values() if isinstance(v, str)]
    for v in kw.values():
        if isinstance(v, list):
            toks += v
    a['need'] = need_of(toks)
    return a


def base(cfg):
    """Transport open/close, connects, disconnects."""
    T = cfg['transports']
    A = []
    for i, t in enumerate(T):
        A.append(mk('EioOpen', t=t, after=T[i - 1] if i else ''))
    for t in T:
        for r in cfg.get('lost_reasons', ['transport close']):
            A.append(mk('EioLost', t=t, reason=r))
    for t in T:
        for ns in cfg['ns_all']:
            for auth in cfg.get('auths', ['absent']):
                A.append(mk('RxConnect', t=t, ns=ns, auth=auth))
        for ns in cfg.get('ns_disc', cfg['ns_all']):
            A.append(mk('RxDisconnect', t=t, ns=ns))
    S = [sid(i) for i in range(1, cfg['max_sid'] + 1)]
    for s in S:
        for ns in cfg['ns_api']:
            A.append(mk('Disconnect', sid=s, ns=ns))
    return A


def rooms(cfg):
    A = base(cfg)
    S = [sid(i) for i in range(1, cfg['max_sid'] + 1)]
    R = cfg['rooms']
    for ns in cfg['ns_api']:
        for s in S:
            for r in R:
                A.append(mk('EnterRoom', sid=s, room=r, ns=ns))
                A.append(mk('LeaveRoom', sid=s, room=r, ns=ns))
            A.append(mk('Rooms', sid=s, ns=ns))
        for r in R:
            A.append(mk('CloseRoom', room=r, ns=ns))
    for ns in cfg['ns_api']:
        for tk, to in cfg['emit_to']:
            for sk, skip in cfg['emit_skip']:
                A.append(mk('Emit', ns=ns, toKind=tk, to=to, skipKind=sk,
                            skip=skip, ev='msg', data='v1', cb=''))
    return A


def enabled(cfg):
    T = cfg['transports']
    max_sid = cfg['max_sid']
    max_ack = cfg.get('max_ack', 0)

    def en(s, a):
        if not s['nextSid'] > a['need']:
            return False
        act = a['act']
        if act == 'EioOpen':
            return s['eio'][a['t']] == 'none' and (
                a['after'] == '' or s['eio'][a['after']] != 'none')
        if act == 'EioLost':
            return s['eio'][a['t']] == 'open'
        if act == 'RxConnect':
            return s['eio'][a['t']] == 'open' and s['nextSid'] <= max_sid \
                and a['t'] not in s['binbuf']
        if act in ('RxDisconnect', 'RxEvent', 'RxAck'):
            return s['eio'][a['t']] == 'open' and a['t'] not in s['binbuf']
        if act == 'RxFrame':
            return s['eio'][a['t']] == 'open' and (
                a['kind'] != 'hdr' or a['t'] not in s['binbuf'])
        if act == 'Emit':
            return a['cb'] == '' or all(
                c['next'] <= max_ack for c in s['cb'].values())
        return True
    return en


CONFIGS = {}

CONFIGS['rooms_quick'] = dict(
    transports=['t1', 't2'], ns_h=['/', '/a'], ns_all=['/', '/a', '/x'],
    ns_api=['/', '/a'], max_sid=2, rooms=['r1', 's1'],
    emit_to=[('none', []), ('one', ['r1']), ('one', ['s1']), ('one', ['s2']),
             ('list', ['r1', 's1']), ('list', ['r1', 'r1'])],
    emit_skip=[('none', []), ('one', ['s1']), ('list', ['s1', 's2'])],
    alpha='rooms')
