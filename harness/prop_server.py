"""Checks of the properties decided with spec/SioServer.tla:
C03 C04(histories) C05 C06 C11 C12 C16 (and the server half of C14).

For every configuration of a property's plan:
  G1  TLC model-checks SioServer with the configuration's constants and
      alphabet against the property's invariants (with the listed known
      deviations enabled, and once more as the intended design, Dev = {});
  G2  the real Server and the real AsyncServer are explored exhaustively and
      TLC re-executes every implementation edge with the spec's Do();
  G3  |implementation states| = |spec core states|.
"""
import concurrent.futures as cf
import json
import os

from . import common, explore, srv, srv_alpha, srv_check, tlc
from . import cli, cli_alpha, simple, threads, adisc, pubsub, admin, asimple
from .tla_lit import lit

BASE_INV = ['TypeOK']

PLAN = {
    'C03': {
        'inv': ['ConnAgree', 'C03_Recipients', 'C03_RoomsListing',
                'C03_NoGhostsOfTheDeparted'],
        'quick': ['rooms_quick'],
        'thorough': ['rooms_quick', 'rooms3'],
        # (config, histories quick, histories thorough, max length)
        'walks': [('rooms_big', 60, 1500, 60)],
        'walk_inv': ['ConnAgree', 'C03_RoomsListing',
                     'C03_NoGhostsOfTheDeparted'],
    },
    'C04': {
        'inv': ['ConnAgree', 'C04_ConnectOutcome', 'C04_DisconnectHandler',
                'C04_DisconnectOnce', 'C03_Recipients',
                'C03_NoGhostsOfTheDeparted'],
        'also': ['C04s'],
        'quick': ['lifecycle_nc_fn_l', 'lifecycle_ac_class_s'],
        'thorough': [k for k in srv_alpha.CONFIGS
                     if k.startswith('lifecycle_') and 'quick' not in k],
    },
    'C05': {
        'inv': ['ConnAgree', 'C05_EventDispatch', 'C05_BinaryEventDispatch'],
        'quick': ['events_quick', 'events_quick_bg'],
        'thorough': ['events_quick', 'events_quick_bg', 'events_mp_quick',
                     'events_t_fn', 'events_t_class_bg'],
    },
    'C06': {
        'inv': ['ConnAgree', 'C06_IssuedIdUnique', 'C06_AckOutcome',
                'C06_IssuedMatchesCore', 'C06_CallOutcome'],
        'walks': [('acks_big', 40, 1000, 60), ('calls_big', 20, 400, 40)],
        'walk_inv': ['ConnAgree', 'C06_IssuedMatchesCore'],
        'quick': ['acks_quick', 'calls_quick', 'calls_inline'],
        'thorough': ['acks_quick', 'acks_t', 'acks_mp_quick', 'calls_quick',
                     'calls_inline', 'calls_t'],
    },
    'C11': {
        'inv': ['C11_NoResidue', 'C11_FreshWhenEmpty'],
        'walks': [('residue_big', 40, 1000, 60)],
        'walk_inv': ['C11_NoResidue', 'C11_FreshWhenEmpty'],
        'quick': ['residue_quick', 'residue_ac_quick'],
        'thorough': ['residue_quick', 'residue_ac_quick', 'residue_t'],
    },
    'C12': {
        'inv': ['C12_Isolation'],
        # random tier: arbitrary frames of the offender (FuzzOK per step)
        # (TLC re-executes ~10^4 such steps a minute)
        'walks': [('hostile_fuzz', 400, 2000, 60),
                  ('hostile_fuzz_mp', 150, 800, 60)],
        'walk_inv': [],
        'quick': ['hostile_quick', 'hostile_mp_quick'],
        'thorough': ['hostile_quick', 'hostile_mp_quick', 'hostile_t'],
    },
    'C16': {
        'inv': ['ConnAgree', 'C16_SessionIsolation'],
        'walks': [('sessions_big', 40, 1000, 60)],
        'walk_inv': ['ConnAgree'],
        'quick': ['sessions_quick', 'sessions_quick_b'],
        'thorough': ['sessions_quick', 'sessions_quick_b', 'sessions_t'],
    },
}

WITNESS = {'D6': 'D6_NotObservable', 'D3': 'D3_NotTaken',
           'D5': 'D5_NotObservable', 'D9': 'D9_NotObservable',
           'D7': 'D7_NotTaken'}

PLAN.update({
    'C08': {
        'walks': [('cstate_big', 60, 1500, 80)],
        'walk_inv': ['C08_Mirror', 'C08_FullyDisconnected',
                     'C08_HandlersOnce'],
        'fam': 'client',
        'inv': ['C08_Mirror', 'C08_FullyDisconnected', 'C08_ConnectOutcome',
                'C08_BadNamespace', 'C08_HandlersOnce'],
        'quick': ['cstate_quick', 'cstate_implicit', 'cstate_rc'],
        'thorough': ['cstate_fn', 'cstate_class', 'cstate_implicit',
                     'cstate_rc'],
    },
    'C20': {
        'fam': 'threads',
        'inv': ['C20_HandlerAtMostOnce', 'C20_HandlerExactlyOnce',
                'C20_NoThreadRaises', 'C20_CleanAfterwards'],
        'quick': ['thr_api+rxdisc_al', 'thr_api+lost_by',
                  'thr_rxdisc+lost_al_2ns', 'thr_api+api_al',
                  'thr_api_other+lost_al_2ns'],
        'thorough': list(threads.CONFIGS),
    },
    'C04s': {
        'fam': 'adisc',
        'inv': ['C20_HandlerAtMostOnce', 'C20_HandlerExactlyOnce',
                'C20_NoThreadRaises', 'C20_CleanAfterwards',
                'C11_NoCallbackResidue'],
        'quick': ['athr_emit_cb+lost_al', 'athr_emit_cb+rxdisc+lost_al',
                  'athr_api+rxdisc_al', 'athr_api+lost_by',
                  'athr_rxdisc+lost_al_2ns', 'athr_api+api_al',
                  'athr_api+rxdisc+lost_al', 'athr_api_other+lost_al_2ns'],
        'thorough': ['a' + k for k in threads.CONFIGS] + [
            'athr_emit_cb+lost_al', 'athr_emit_cb+api_al',
            'athr_emit_cb+rxdisc+lost_al', 'athr_emit_cb+emit_cb+lost_al'],
    },
    'C14p': {
        'fam': 'pubsub',
        'inv': [],
        'quick': ['ps_cb_quick', 'ps_listener_junk_quick',
                  'ps_listener_enc_quick'],
        'thorough': ['ps_cb_quick', 'ps_listener_junk_quick',
                     'ps_listener_enc_quick', 'ps_imm_quick',
                     'ps_delay_quick', 'ps_listener_cb_quick'],
    },
    'C14': {
        # (the twins' equivalence is the differential of the two graphs; the
        # configurations with raising handlers do not keep ConnAgree)
        'inv': [],
        'also': ['C14c', 'C14p'],
        'quick': ['acks_quick', 'lifecycle_quick_ac'],
        'thorough': ['rooms_quick', 'acks_quick', 'lifecycle_quick_ac',
                     'events_quick', 'events_quick_bg', 'sessions_quick',
                     'hostile_quick', 'residue_quick', 'lifecycle_nc_fn_l',
                     'hostile_mp_quick', 'events_mp_quick', 'acks_mp_quick'],
    },
    'C14c': {
        'fam': 'client',
        'inv': [],
        'quick': ['cstate_quick', 'cacks_quick'],
        'thorough': ['cstate_fn', 'cacks_fn', 'cacks_class'],
    },
    'C19a': {
        'fam': 'asimple',
        'inv': ['C19_Order', 'C19_DisconnectedOnlyAfterFinal',
                'C19_NoErrorWhileEventAvailable',
                'C19_EmitWaitsOutReconnection'],
        'quick': ['asc_quick', 'asc_drop', 'asc_final', 'asc_emit',
                  'asc_emit_final', 'asc_mix', 'asc_refail',
                  'asc_emit_refail'],
        'thorough': list(asimple.CONFIGS),
    },
    'C19': {
        'also': ['C19a'],
        'fam': 'simple',
        'inv': ['C19_Order', 'C19_DisconnectedOnlyAfterFinal',
                'C19_NoErrorWhileEventAvailable',
                'C19_EmitWaitsOutReconnection'],
        'quick': ['sc_quick', 'sc_drop', 'sc_final', 'sc_emit',
                  'sc_emit_final', 'sc_refail', 'sc_emit_refail'],
        'thorough': list(simple.CONFIGS),
    },
    'C07': {
        'fam': 'pubsub',
        'walks': [('ps_walk_big', 40, 800, 80)],
        'walk_inv': ['TypeOK', 'C07_Deliveries', 'C07_OwnerHoldsClient'],
        'inv': ['C07_Deliveries', 'C07_SingleServerEquivalence',
                'C07_OwnerHoldsClient', 'C07_CallbackOnOrigin'],
        'quick': ['ps_imm_quick', 'ps_delay_quick', 'ps_delay_disc_quick',
                  'ps_cb_quick', 'ps_cb_disc_quick', 'ps_list_quick',
                  'ps_sidroom_quick'],
        'thorough': ['ps_imm_quick', 'ps_delay_quick', 'ps_delay_disc_quick',
                     'ps_cb_quick', 'ps_delay_rooms_quick',
                     'ps_imm_cb_quick', 'ps_list_quick', 'ps_cb_disc_quick',
                     'ps_sidroom_quick', 'ps_sidroom_cb',
                     'ps_cb3',
                     'ps_delay_chan3'],
    },
    'C15': {
        'fam': 'pubsub',
        'inv': ['C15_ListenerAlive', 'C15_EchoAndJunkChangeNothing',
                'C07_CallbackOnOrigin'],
        'quick': ['ps_listener_junk_quick', 'ps_listener_cb_quick',
                  'ps_listener_fault_quick', 'ps_listener_enc_quick',
                  'ps_listener_cbcancel_quick'],
        'thorough': ['ps_listener_junk_quick', 'ps_listener_cb_quick',
                     'ps_listener_fault_quick', 'ps_listener_enc_quick',
                  'ps_listener_cbcancel_quick'],
    },
    'C18g': {
        'fam': 'admin',
        'inv': ['C18_GatedRequestsDoNothing',
                'C18_UngatedRequestIsTheServerCall'],
        'quick': ['adm_gate_dev_rw', 'adm_gate_dev_ro', 'adm_gate_pro_rw',
                  'adm_transp_acks_quick_dev_adm',
                  'adm_transp_lifecycle_quick_ac_pro_adm',
                  'adm_transp_events_quick_dev_noadm',
                  'adm_transp_events_quick_dev_adm'],
        'thorough': [k for k in admin.CONFIGS],
    },
    'C09': {
        'walks': [('cacks_big', 40, 1000, 60)],
        'walk_inv': ['C09_IssuedMatchesCore'],
        'fam': 'client',
        'inv': ['C09_EventDispatch', 'C09_IssuedIdUnique', 'C09_AckOutcome',
                'C09_IssuedMatchesCore'],
        'quick': ['cacks_quick', 'cacks_quick_class'],
        'thorough': ['cacks_fn', 'cacks_class'],
    },
})


def _cli_consts(cfg):
    return {'NsH': set(cfg['ns_h']), 'HKind': cfg.get('hkind', 'fn'),
            'MaxAck': cfg.get('max_ack', 0), 'MaxSid': cfg['max_sid'],
            'Reconnect': bool(cfg.get('reconnection', False)),
            'Dev': set(cfg.get('dev', []))}


class _SimpleAlpha:
    @staticmethod
    def sched(cfg):
        return simple.ALPHABET

    @staticmethod
    def enabled(cfg):
        return simple.enabled


def _simple_consts(cfg):
    return {'NArr': cfg['arrivals'],
            'App': [{'op': o[0], 'to': bool(o[1]) if len(o) > 1 else False}
                    for o in cfg['app']],
            'Conn': list(cfg['conn']), 'Atomic': bool(cfg.get('atomic')),
            'Dev': set(cfg.get('dev', []))}


def _simple_liveness(cfg):
    # "a receive() with a finite timeout terminates": only where every call
    # of the application is one (otherwise the formula is a tautology)
    if cfg['app'] and all(op[0] == 'receive' and len(op) > 1 and op[1]
                          for op in cfg['app']):
        return ['C19_FiniteReceiveTerminates']
    return []


class _ThreadsAlpha:
    @staticmethod
    def sched(cfg):
        return threads.alphabet(cfg)

    @staticmethod
    def enabled(cfg):
        return threads.enabled


def _threads_consts(cfg):
    return {'Ops': list(cfg['ops']), 'TwoNs': bool(cfg.get('two_ns')),
            'Bystander': bool(cfg.get('bystander')),
            'Dev': set(cfg.get('dev', [])),
            'YieldAt': set(cfg.get('yield_at', threads.ALL_LABELS))}


def _pubsub_consts(cfg):
    c = srv_check.consts(cfg)
    c.update({'Hosts': set(cfg['hosts']), 'HostOf': dict(cfg['host_of']),
              'WriteOnly': bool(cfg.get('write_only')),
              'MaxChan': cfg['max_chan'],
              'Immediate': bool(cfg.get('immediate')),
              'NsAll': set(cfg['ns_all']),
              'CbCancel': bool(cfg.get('cb_cancel'))})
    return c


FAMILIES = {
    'admin': dict(spec='Admin', graph='AdminGraph', configs=admin.CONFIGS,
                  alpha=admin, consts=admin.consts, next='ANext',
                  adapter=lambda c: admin.AdminSrvAdapter(c)),
    'pubsub': dict(spec='PubSub', graph='PubSubGraph',
                   configs=pubsub.CONFIGS, alpha=pubsub,
                   consts=_pubsub_consts,
                   adapter=lambda c: pubsub.PubSubAdapter(c)),
    'threads': dict(spec='SrvDisconnectThreads',
                    graph='SrvDisconnectThreadsGraph',
                    configs={k: dict(v, alpha='sched')
                             for k, v in threads.CONFIGS.items()},
                    alpha=_ThreadsAlpha, consts=_threads_consts,
                    adapter=lambda c: threads.ThreadsAdapter(c),
                    no_alphabet=True, variants=('threaded',), base_inv=[]),
    'adisc': dict(spec='SrvDisconnectThreads',
                  graph='SrvDisconnectThreadsGraph',
                  configs=dict(
                      {'a' + k: dict(v, alpha='sched', dev=[],
                                     yield_at=threads.ASYNC_LABELS)
                       for k, v in threads.CONFIGS.items()},
                      # an emit with a callback racing the terminations
                      **{'athr_%s_al' % '+'.join(o): dict(
                          ops=o, bystander=False, two_ns=False, dev=[],
                          alpha='sched', yield_at=threads.ASYNC_LABELS)
                         for o in (['emit_cb', 'lost'], ['emit_cb', 'api'],
                                   ['emit_cb', 'rxdisc', 'lost'],
                                   ['emit_cb', 'emit_cb', 'lost'])}),
                  alpha=_ThreadsAlpha, consts=_threads_consts,
                  adapter=lambda c: adisc.AsyncDiscAdapter(c),
                  no_alphabet=True, variants=('asyncio',), base_inv=[]),
    'asimple': dict(spec='SimpleClient', graph='SimpleClientGraph',
                    configs={k: dict(v, alpha='sched', dev=['D9'])
                             for k, v in asimple.CONFIGS.items()},
                    alpha=_SimpleAlpha, consts=_simple_consts,
                    adapter=lambda c: asimple.AsyncSimpleAdapter(c),
                    liveness=_simple_liveness,
                    no_alphabet=True, variants=('asyncio',), base_inv=[]),
    'simple': dict(spec='SimpleClient', graph='SimpleClientGraph',
                   configs={k: dict(v, alpha='sched', dev=['D9'])
                            for k, v in simple.CONFIGS.items()},
                   alpha=_SimpleAlpha, consts=_simple_consts,
                   adapter=lambda c: simple.SimpleAdapter(c),
                   liveness=_simple_liveness,
                   no_alphabet=True, variants=('threaded',),
                   base_inv=[]),
    'server': dict(spec='SioServer', graph='SioServerGraph',
                   configs=srv_alpha.CONFIGS, alpha=srv_alpha,
                   consts=srv_check.consts,
                   adapter=lambda c: srv.SrvAdapter(c)),
    'client': dict(spec='SioClient', graph='SioClientGraph',
                   configs=cli_alpha.CONFIGS, alpha=cli_alpha,
                   consts=_cli_consts,
                   adapter=lambda c: cli.CliAdapter(c)),
}


def _fam(pid):
    return FAMILIES[PLAN[pid].get('fam', 'server')]


def mc_module(fam, name, extends, cfg, alphabet):
    c = fam['consts'](cfg)
    lines = ['---- MODULE %s ----' % name, 'EXTENDS ' + extends, '']
    for k, v in c.items():
        lines.append('c_%s == %s' % (k, lit(v)))
    if not fam.get('no_alphabet'):
        lines.append('c_Alphabet == <<')
        lines.append(',\n'.join('  ' + lit(a) for a in alphabet))
        lines.append('>>')
    lines.append('====')
    cfgl = ['CONSTANTS']
    for k in list(c) + ([] if fam.get('no_alphabet') else ['Alphabet']):
        cfgl.append('  %s <- c_%s' % (k, k))
    return '\n'.join(lines), '\n'.join(cfgl) + '\n'


def _kind(a):
    if 'act' in a:
        k = a['act']
        for f in ('kind', 'class'):
            if f in a:
                k += ':' + str(a[f])
        if a['act'] in ('Inject', 'JunkProbe'):
            k += ':' + a['msg'].get('class', a['msg']['method'])
        return k
    return '%s:%s' % (a.get('th'), a.get('c'))


class _Factory:
    def __init__(self, fam_name, cfg):
        self.fam_name = fam_name
        self.cfg = cfg

    def __call__(self):
        return FAMILIES[self.fam_name]['adapter'](self.cfg)


def _cfg_for(fam, name, dev):
    cfg = dict(fam['configs'][name])
    cfg['dev'] = sorted(dev)
    return cfg


def _tlc_g1(fam, wd, cfg, alphabet, invariants, workers, view=False,
            tag='MC'):
    mod, cfgc = mc_module(fam, tag, fam['spec'], cfg, alphabet)
    if view:
        mod = mod.replace('====', 'CoreView == st\n====')
    cfgt = ('VIEW CoreView\n' if view else '') + \
        'INIT Init\nNEXT %s\n' % fam.get('next', 'Next') + \
        cfgc + ''.join('INVARIANT %s\n' % i for i in invariants)
    return tlc.run_tlc(os.path.join(wd, tag), tag, cfgt, modules={tag: mod},
                       workers=workers)


def _tlc_live(fam, wd, cfg, alphabet, props, workers, tag='MCL'):
    """Liveness under the module's fairness condition (SPECIFICATION Spec,
    no constraint, no view)."""
    mod, cfgc = mc_module(fam, tag, fam['spec'], cfg, alphabet)
    cfgt = 'SPECIFICATION Spec\n' + cfgc + \
        ''.join('PROPERTY %s\n' % p for p in props)
    return tlc.run_tlc(os.path.join(wd, tag), tag, cfgt, modules={tag: mod},
                       workers=workers)


def _tlc_g2(fam, wd, cfg, alphabet, gf, workers, tag, complete=True,
            ghosts=False, invariants=()):
    mod, cfgc = mc_module(fam, tag, fam['graph'], cfg, alphabet)
    cfgt = 'INIT GInit\nNEXT GNext\n' + cfgc + 'INVARIANT AllEdgesOK\n' + \
        ('INVARIANT AlphabetComplete\n' if complete else '') + \
        ''.join('INVARIANT %s\n' % i for i in invariants)
    return tlc.run_tlc(os.path.join(wd, tag), tag, cfgt,
                       env={'GRAPH_FILE': gf,
                            'WITH_GHOSTS': '1' if ghosts else '0'},
                       modules={tag: mod}, workers=workers, heap='8g')


def check_walks(v, name, invariants, dev, n, length):
    """Scope beyond the exhaustive bound: seeded random histories on a
    larger configuration, recorded as a forest; TLC re-executes every step
    with the specification (whole state, outputs) and evaluates the
    property invariants, ghosts evolving along each history."""
    planid = getattr(v, 'planid', v.pid)
    fam = _fam(planid)
    fam_name = PLAN[planid].get('fam', 'server')
    cfg = _cfg_for(fam, name, dev)
    wd = os.path.join(common.WORK, v.pid, 'walks_' + name)
    os.makedirs(wd, exist_ok=True)
    alphabet = getattr(fam['alpha'], cfg['alpha'])(cfg)
    en = fam['alpha'].enabled(cfg)
    ok = True
    for var in fam.get('variants', ('threaded', 'asyncio')):
        c2 = dict(cfg, asyncio=(var == 'asyncio'))
        g = explore.random_walks(_Factory(fam_name, c2), alphabet, en, n,
                                 length, common.seed())
        gf = os.path.join(wd, 'walks_%s.json' % var)
        with open(gf, 'w') as f:
            json.dump(common.jsonable({'nodes': g['nodes'], 'out': g['out'],
                                       'edges': g['edges']}), f)
        r = _tlc_g2(fam, wd, cfg, alphabet, gf, 8, 'MCW_' + var,
                    complete=False, ghosts=True, invariants=invariants)
        v.log('  [%s/%s] %d random histories of length <= %d (%d steps, '
              'alphabet %d): %s' % (name, var, n, length, len(g['edges']),
                                    len(alphabet),
                                    'ok' if r.ok else r.violation or
                                    (r.error or '')[-300:]))
        if r.error and 'Attempted to' not in r.error:
            v.error('TLC failed on walks %s/%s: %s' % (name, var, r.error))
            return False
        if not r.ok:
            ok = False
            rej = _rejected_edge(r) or ('invariant %s' % r.violation) \
                if not r.error else 'ill-shaped value: ' + r.error[-400:]
            i = _edge_no(rej)
            rep = {'config': name, 'impl': var, 'verdict': rej,
                   'seed': common.seed()}
            if i:
                # the history up to the rejected step
                e = g['edges'][i - 1]
                path = []
                cur = e['src']
                by_dst = {x['dst']: x for x in g['edges']}
                while cur != 1:
                    x = by_dst[cur]
                    path.append(x['a'])
                    cur = x['src']
                rep.update({'history': path[::-1], 'action': e['a'],
                            'observed': e['out'],
                            'observed_post_state': g['nodes'][e['dst'] - 1]})
            v.violation('random history: ' + str(rej)[:1500], rep)
        else:
            v.cov['traces_validated_against_impl'] += len(g['edges'])
            v.add_run(config='walks:' + name, impl=var, dev=sorted(dev),
                      impl_states=len({explore.canon(x)
                                       for x in g['nodes']}),
                      impl_edges=len(g['edges']), walks=n, g2_ok=True)
    return ok


def _rejected_edge(r):
    for p in r.prints:
        if 'EDGE_REJECTED' in p or 'ALPHABET_MISMATCH' in p or \
                'INIT_MISMATCH' in p:
            return p
    return None


def _edge_no(text):
    import re
    m = re.search(r'"EDGE_REJECTED", (\d+)', text)
    return int(m.group(1)) if m else None


def check_config(v, name, invariants, dev, variants=None):
    """One configuration, both implementations.  Returns True when clean."""
    planid = getattr(v, 'planid', v.pid)
    fam = _fam(planid)
    base_inv = fam.get('base_inv', BASE_INV)
    fam_name = PLAN[planid].get('fam', 'server')
    cfg = _cfg_for(fam, name, dev)
    variants = variants or cfg.get('variants') or fam.get(
        'variants', ('threaded', 'asyncio'))
    wd = os.path.join(common.WORK, v.pid, name)
    os.makedirs(wd, exist_ok=True)
    alphabet = getattr(fam['alpha'], cfg['alpha'])(cfg)
    en = fam['alpha'].enabled(cfg)
    clean = True
    with cf.ThreadPoolExecutor(4) as ex:
        f1 = ex.submit(_tlc_g1, fam, wd, cfg, alphabet, base_inv + invariants, 6)
        f3 = ex.submit(_tlc_g1, fam, wd, cfg, alphabet, [], 4, True, 'MCV')
        graphs = {}
        # the implementation may not have more abstract states than the
        # specification: exploring further is pointless (and, for a broken
        # tree, possibly endless) - the graph explored so far is validated
        r3 = f3.result()
        budget = 2 * r3.distinct + 1000 if not r3.error else 200000
        for var in variants:
            c2 = dict(cfg, asyncio=(var == 'asyncio'))
            try:
                g = explore.explore(_Factory(fam_name, c2), alphabet, en,
                                    workers=12, max_states=budget,
                                    partial_ok=True)
            except explore.Nondeterminism as nd:
                # never happens on a tree that follows the specification
                # (every action is a function of the history there)
                rep = {'config': name, 'impl': var,
                       'verdict': 'the same history replayed on a fresh '
                       'object ends in a different abstract state',
                       'path_to_source_state': nd.path,
                       'first_replay': nd.first, 'second_replay': nd.second}
                for _v, (_g, _gf, fut) in graphs.items():
                    fut.cancel()
                f1.cancel()
                f3.cancel()
                return ('REJECT', rep)
            gf = os.path.join(wd, 'graph_%s.json' % var)
            with open(gf, 'w') as f:
                json.dump(common.jsonable(
                          {'nodes': g['nodes'], 'out': g['out'],
                           'edges': g['edges']}), f)
            graphs[var] = (g, gf, ex.submit(_tlc_g2, fam, wd, cfg, alphabet, gf, 4,
                                            'MCG_' + var,
                                            not g.get('partial')))
            # vacuity guard: every kind of action of the alphabet was taken
            # somewhere, and how often it had an observable effect
            kinds = {}
            for a in alphabet:
                kinds.setdefault(_kind(a), [0, 0])
            for e in g['edges']:
                k = kinds.setdefault(_kind(e['a']), [0, 0])
                k[0] += 1
                o = e['out']
                if e['src'] != e['dst'] or any(
                        o.get(f) for f in ('pk', 'hc', 'cbs', 'set')) or \
                        o.get('res') not in (None, ['ok'], []):
                    k[1] += 1
            v.cov.setdefault('action_coverage', {})[
                '%s/%s' % (name, var)] = {k: x for k, x in kinds.items()}
            dead = sorted(k for k, x in kinds.items() if x[0] == 0)
            if dead and not g.get('partial'):
                v.cov.setdefault('never_enabled', {})[
                    '%s/%s' % (name, var)] = dead
                v.log('  note: in %s/%s no reachable state enables %s'
                      % (name, var, dead))
            v.log('  [%s/%s] implementation graph: %d states, %d edges '
                  '(depth %d, %.1fs)' % (name, var, len(g['nodes']),
                                         len(g['edges']), g['depth'],
                                         g['wall']))
        # direct differential (C14): the two implementation graphs must be
        # identical after renaming ids by order of appearance
        if len(graphs) == 2:
            (ga, _, _), (gb, _, _) = graphs['threaded'], graphs['asyncio']
            if explore.canon(ga['nodes']) != explore.canon(gb['nodes']) or \
                    explore.canon(ga['edges']) != explore.canon(gb['edges']):
                diff = None
                for ea, eb in zip(ga['edges'], gb['edges']):
                    if explore.canon(ea) != explore.canon(eb):
                        diff = {'threaded': ea, 'asyncio': eb,
                                'path': explore.path_actions(
                                    ga, alphabet, ea['src'])}
                        break
                v.differential = diff or {'sizes': [len(ga['edges']),
                                                    len(gb['edges'])]}
            v.cov.setdefault('differential_pairs', 0)
            v.cov['differential_pairs'] += 1
        r1 = f1.result()
        r3 = f3.result()
        v.log('  [%s] G1 spec: %d distinct states (with ghosts), %d '
              'transitions, %s; core states %d' % (
                  name, r1.distinct, r1.generated,
                  'ok' if r1.ok else 'violation=%s' % r1.violation,
                  r3.distinct))
        if r1.error or r3.error:
            v.error('TLC failed on %s: %s' % (name, r1.error or r3.error))
            return False
        if not r1.ok:
            clean = False
            v.violation('G1: the specification of the code (config %s, Dev=%s)'
                        ' violates %s' % (name, sorted(dev), r1.violation),
                        {'config': name, 'tlc_trace': r1.out[-6000:]})
        v.cov['states'] += r1.distinct
        v.cov['transitions'] += r1.generated
        live = fam['liveness'](cfg) if fam.get('liveness') else []
        if live:
            rl = _tlc_live(fam, wd, cfg, alphabet, live, 4)
            v.log('  [%s] liveness %s under weak fairness: %s' % (
                name, live,
                'ok' if rl.ok else rl.violation or (rl.error or '')[-300:]))
            if rl.error:
                v.error('TLC liveness run failed on %s: %s' % (name,
                                                               rl.error))
                return False
            if not rl.ok:
                clean = False
                v.violation('G1: the specification of the code (config %s) '
                            'violates the liveness property %s' % (
                                name, live),
                            {'config': name, 'tlc_trace': rl.out[-6000:]})
        for var, (g, gf, f2) in graphs.items():
            r2 = f2.result()
            if r2.error and ('Attempted to' in r2.error or
                             'nonexistent field' in r2.error):
                # the implementation produced a value of a shape the
                # specification cannot even compare with its own (never on a
                # tree that follows it): a rejected edge, not a tool failure
                import re
                m = re.search(r'(Attempted to[^\n]*(\n[^\n]*){0,6})',
                              r2.error)
                rep = {'config': name, 'impl': var,
                       'verdict': 'EDGE_REJECTED (ill-shaped value): ' +
                       (m.group(1) if m else r2.error[-600:])}
                v._last_reject = rep
                return ('REJECT', rep)
            if r2.error:
                v.error('TLC G2 failed on %s/%s: %s' % (name, var, r2.error))
                return False
            run = {'config': name, 'impl': var, 'dev': sorted(dev),
                   'impl_states': len(g['nodes']),
                   'impl_edges': len(g['edges']),
                   'spec_core_states': r3.distinct,
                   'g2_ok': r2.ok}
            v.add_run(**run)
            if not r2.ok:
                clean = False
                rej = _rejected_edge(r2) or ('invariant %s' % r2.violation)
                i = _edge_no(rej)
                rep = {'config': name, 'impl': var, 'verdict': rej}
                if i:
                    e = g['edges'][i - 1]
                    rep['path_to_source_state'] = explore.path_actions(
                        g, alphabet, e['src'])
                    rep['action'] = e['a']
                    rep['observed'] = e['out']
                    rep['observed_post_state'] = g['nodes'][e['dst'] - 1]
                v._last_reject = rep
                return ('REJECT', rep)
            v.cov['traces_validated_against_impl'] += len(g['edges'])
            if g.get('partial'):
                clean = False
                v.violation(
                    'the implementation reaches more abstract states than '
                    'the specification has (config %s/%s: stopped at %d, '
                    'specification %d)' % (name, var, len(g['nodes']),
                                           r3.distinct),
                    {'config': name, 'impl': var,
                     'a_state_beyond': g['nodes'][-1],
                     'path': explore.path_actions(g, alphabet,
                                                  len(g['nodes']))})
                continue
            if len(g['nodes']) != r3.distinct:
                v.error('G3 count mismatch on %s/%s: impl %d vs spec %d with '
                        'every edge valid (bounds out of sync)' % (
                            name, var, len(g['nodes']), r3.distinct))
                return False
            if not v.cov['samples']:
                mid = g['edges'][len(g['edges']) // 2]
                v.cov['samples'].append({
                    'config': name, 'impl': var,
                    'path': explore.path_actions(g, alphabet, mid['src']),
                    'action': mid['a'], 'observed_outputs': mid['out'],
                    'post_state': g['nodes'][mid['dst'] - 1]})
    return clean


def _redis_leg(v, tier):
    """C15: the bundled Redis backends' retry loops over a fake redis client
    with scripted failures (RedisRetry.tla / RedisRetryTraces.tla)."""
    import subprocess
    import sys
    wd = os.path.join(common.WORK, v.pid, 'redis')
    os.makedirs(wd, exist_ok=True)
    cfg1 = ('INIT Init\nNEXT Next\nCONSTANT MaxSteps = %d\n'
            'INVARIANT SleepIsBoundedBackoff\nINVARIANT NeverGivesUp\n'
            'INVARIANT ResetAfterRecovery\n' % (26 if tier == 'quick' else 34))
    r1 = tlc.run_tlc(os.path.join(wd, 'g1'), 'RedisRetry', cfg1, workers=8)
    v.log('  [redis] G1 retry machine: %d states, %s' % (
        r1.distinct, 'ok' if r1.ok else r1.violation or r1.error))
    if r1.error:
        v.error('TLC: ' + r1.error)
        return
    if not r1.ok:
        v.violation('RedisRetry.tla violates ' + str(r1.violation),
                    {'tlc': r1.out[-3000:]})
    v.cov['states'] += r1.distinct
    v.cov['transitions'] += r1.generated
    tf = os.path.join(wd, 'recorded.json')
    p = subprocess.run([sys.executable, '-m', 'harness.redis_retry', tf,
                        tier], cwd=common.ROOT, capture_output=True,
                       text=True, timeout=1200)
    if p.returncode != 0:
        v.error('redis harness failed: ' + (p.stdout + p.stderr)[-1500:])
        return
    traces = json.load(open(tf))
    edges, out, index = [], [[]], []
    nn = 1
    for t in traces:
        cur = 1
        for e in t['events']:
            nn += 1
            out.append([])
            edges.append({'dst': nn, 'e': e})
            out[cur - 1].append(len(edges))
            index.append(t)
            cur = nn
    gf = os.path.join(wd, 'traces.json')
    with open(gf, 'w') as f:
        json.dump({'out': out, 'edges': edges}, f)
    r2 = tlc.run_tlc(os.path.join(wd, 'g2'), 'RedisRetryTraces',
                     'INIT GInit\nNEXT GNext\nCONSTANT MaxSteps = 0\n'
                     'INVARIANT AllEventsOK\n'
                     'INVARIANT SleepIsBoundedBackoff\n',
                     env={'GRAPH_FILE': gf}, workers=4)
    v.log('  [redis] G2 %d recorded executions of RedisManager / '
          'AsyncRedisManager (%d events): %s' % (
              len(traces), len(edges),
              'ok' if r2.ok else r2.violation or r2.error))
    if r2.error:
        v.error('TLC: ' + r2.error)
    elif not r2.ok:
        import re
        rej = [x for x in r2.prints if 'EVENT_REJECTED' in x]
        rep = {'verdict': rej[0][:2000] if rej else str(r2.violation)}
        if rej:
            i = int(re.search(r'"EVENT_REJECTED", (\d+)', rej[0]).group(1))
            rep['execution'] = index[i - 1]
        v.violation('recorded execution of the Redis backend is not a '
                    'behaviour of RedisRetry.tla: ' + rep['verdict'][:1200],
                    rep)
    else:
        v.cov['traces_validated_against_impl'] += len(traces)
        v.add_run(config='redis_retry', impl='both', impl_states=len(edges),
                  impl_edges=len(edges), g2_ok=True)


def run(pid, tier):
    v = common.Verdict(pid, tier)
    _run_plan(v, pid, pid, tier)
    for extra in PLAN[pid].get('also', []):
        _run_plan(v, pid, extra, tier)
    for pl in [pid] + PLAN[pid].get('also', []):
        _run_walks(v, pid, pl, tier)
    if pid == 'C15':
        _redis_leg(v, tier)
    v.cov['rule'] = ('every action of the configuration alphabet (or every '
                     'scheduler choice) from every reachable abstract state '
                     'of the real threaded and asyncio classes; distinct = '
                     'distinct abstract states')
    v.cov['evaluations'] = v.cov['traces_validated_against_impl']
    v.cov['distinct_nontrivial'] = sum(r['impl_states']
                                       for r in v.cov['runs'])
    return v.finish()


def _run_plan(v, pid, planid, tier):
    plan = PLAN[planid]
    v.planid = planid
    v.differential = None
    known = common.known_for(pid) + [
        k for k in common.known_findings()
        if k['status'] == 'known' and k.get('deviation') in
        _devs_needed(planid)]
    devs = sorted({k['deviation'] for k in known})
    v.assumptions = [
        'python-engineio 4.14 server side is real (sockets injected, no '
        'network); CPython; TLC',
        'small scope: constants of the configurations listed in '
        'coverage.runs',
        'harness projection / token maps (cross-checked by G3)']
    for name in plan[tier]:
        fam = _fam(planid)
        used = [d for d in devs if d in fam['configs'][name].get('dev', [])]
        res = check_config(v, name, plan['inv'], used)
        if pid == 'C14' and res is True and v.differential:
            v.violation('the threaded and the asyncio class differ on the '
                        'same history (config %s)' % name, v.differential)
            v.differential = None
        if isinstance(res, tuple):
            # an implementation edge is not an edge of the spec-with-known-
            # deviations.  Before calling it a violation, see whether the
            # code has meanwhile been repaired (matches the intended design
            # with some deviations removed).
            rep = res[1]
            ok = False
            for sub in _subsets(used):
                v.log('  retrying %s with deviations %s' % (name, sub))
                v2 = common.Verdict(pid, tier)
                v2.planid = planid
                r = check_config(v2, name, plan['inv'], sub)
                if r is True:
                    ok = True
                    v.log('  note: the code now matches the design without '
                          '%s' % sorted(set(used) - set(sub)))
                    for k in ('states', 'transitions',
                              'traces_validated_against_impl'):
                        v.cov[k] += v2.cov[k]
                    v.cov['runs'] += v2.cov['runs']
                    used = sub
                    break
            if not ok:
                v.violation('implementation edge is not an edge of the '
                            'specification: ' + rep['verdict'], rep)
        # the intended design (no deviation) must satisfy the property
        if used:
            cfg0 = _cfg_for(fam, name, [])
            alphabet = getattr(fam['alpha'], cfg0['alpha'])(cfg0)
            wd = os.path.join(common.WORK, pid, name)
            r0 = _tlc_g1(fam, wd, cfg0, alphabet,
                         fam.get('base_inv', BASE_INV) + plan['inv'], 12,
                         tag='MCD')
            v.log('  [%s] design (Dev={}): %d states, %s' % (
                name, r0.distinct, 'ok' if r0.ok else r0.violation))
            if r0.error:
                v.error('TLC design run failed: ' + r0.error)
            elif not r0.ok:
                v.violation('the intended design violates %s' % r0.violation,
                            {'config': name, 'tlc_trace': r0.out[-6000:]})
            # witness: is the known finding still observable?
            cfgw = _cfg_for(fam, name, used)
            for k in known:
                d = k.get('deviation')
                if d in used and k['property'] == pid:
                    rw = _tlc_g1(fam, wd, cfgw, alphabet, [WITNESS[d]], 12,
                                 tag='MCW')
                    if rw.violation == WITNESS[d]:
                        v.known_finding(k['text'])
                    else:
                        v.log('  (known finding %s is not exercised by '
                              'configuration %s)' % (d, name))


def _run_walks(v, pid, planid, tier):
    plan = PLAN[planid]
    v.planid = planid
    fam = _fam(planid)
    known = common.known_findings()
    for name, nq, nt, length in plan.get('walks', []):
        devs = sorted({k['deviation'] for k in known
                       if k['status'] == 'known' and k.get('deviation') in
                       fam['configs'][name].get('dev', [])})
        # state-shaped invariants only: the "for every enabled action"
        # ones cost |alphabet| evaluations per step and are what the edge
        # validation itself establishes for the step actually taken
        check_walks(v, name, plan.get('walk_inv', []), devs,
                    nq if tier == 'quick' else nt, length)


def _devs_needed(pid):
    out = set()
    for tier in ('quick', 'thorough'):
        for name in PLAN[pid][tier]:
            out.update(_fam(pid)['configs'].get(name, {}).get('dev', []))
    return out


def _subsets(devs):
    devs = list(devs)
    out = []
    for i in range(len(devs)):
        out.append(devs[:i] + devs[i + 1:])
    if [] not in out:
        out.append([])
    return [s for s in out if s != devs]
