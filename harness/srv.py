"""Server-side substrate and adapter: drives the real socketio.Server /
AsyncServer (with their real engineio server and real engineio sockets) one
abstract action at a time and projects the real objects to the abstract state
of spec/SioServer.tla.  Nothing here patches /repo; every seam used is public
or an instance attribute."""
import asyncio
import inspect
import logging
import sys
import threading

import engineio
import engineio.packet as eio_packet
import engineio.socket
import engineio.async_socket

import socketio
from socketio import exceptions as sio_exc

from . import refcodec, vloop
from .tokens import val, tok, toks, TOKENS

import os as _os
assert socketio.__file__.startswith(
    _os.path.join(_os.environ.get('VERIF_REPO', '/repo'), 'src') + '/'), \
    socketio.__file__


class Boom(Exception):
    """The harness's application fault."""


PKT_NAMES = refcodec.NAMES

# event name -> what the handler does
EVENTS = {
    'e_none': lambda: None,
    'e_v': lambda: val('v1'),
    'e_z': lambda: val('z0'),
    'e_list': lambda: val('l1'),
    'e_dict': lambda: val('d1'),
    'e_tup0': lambda: (),
    'e_tup1': lambda: (val('v1'),),
    'e_tup2': lambda: (val('v1'), val('v2')),
    'e_bin': lambda: val('b1'),
    'e_tbin': lambda: (val('v1'), val('b1')),
    'e_ddb': lambda: val('ddb1'),
    'e_f': lambda: val('f1'),
    'e_es': lambda: val('es'),
    'e_el': lambda: val('el'),
    'e_ed': lambda: val('ed'),
    'e_h': lambda: val('h1'),
    'e_raise': None,   # raises Boom
}
# 'e_unh' has no handler anywhere


class _LogTap(logging.Handler):
    """Observes exceptions contained by engine.io / pubsub threads."""
    def __init__(self):
        super().__init__(level=logging.ERROR)
        self.seen = []

    def emit(self, record):
        if record.exc_info and record.exc_info[0] is not None:
            self.seen.append(record.exc_info[0].__name__)
        else:
            self.seen.append('log:' + str(record.msg)[:40])


class HarnessEvent:
    """Event handed out by eio.create_event(): wait() runs a harness script
    (re-entrant delivery of frames) and then answers set / timed-out without
    looking at any clock."""
    def __init__(self, owner):
        self.owner = owner
        self.flag = False

    def set(self):
        self.flag = True

    def clear(self):
        self.flag = False

    def is_set(self):
        return self.flag

    def wait(self, timeout=None):
        script = self.owner.wait_script
        self.owner.wait_script = None
        if script:
            script()
        return self.flag


class SrvAdapter:
    """cfg keys: transports, ns_h (namespaces with handlers), ns_all (every
    namespace of the alphabet), ns_opt ('default' | list | '*'), hkind
    ('fn' | 'class'), always_connect, async_handlers, asyncio, max_sid,
    serializer."""

    def __init__(self, cfg, loop=None, daemon=None):
        self.cfg = cfg
        self.is_async = bool(cfg.get('asyncio'))
        self.loop = (loop or vloop.new_loop()) if self.is_async else None
        self.daemon = daemon if daemon is not None else set()
        self.tap = _LogTap()
        self.reset()

    # hooks for the cluster / instrumented variants (harness/pubsub.py, admin)
    def _extra_server_kw(self):
        return {}

    def _extra_act(self, a):
        return False

    def _harness_objects(self):
        return ()

    def _hidden_ns(self):
        return ()

    def _hidden_eids(self):
        return ()

    def _cb_tok(self, v):
        return getattr(v, 'tag', 'call')

    def _cb_next(self, real_sid, name, d):
        # 'next' is observed (highest id seen on the wire for this client
        # + 1), the outstanding set is whatever callable the manager holds
        return max([self.maxid.get(name, 0)] +
                   [k for k, v in d.items()
                    if callable(v) and isinstance(k, int)]) + 1

    # ------------------------------------------------------------ plumbing
    def _run(self, x):
        if inspect.isawaitable(x):
            async def _w():
                r = await x
                # let background tasks finish (joined before comparison)
                for _ in range(50):
                    pend = [t for t in asyncio.all_tasks()
                            if t is not asyncio.current_task()
                            and t not in self.daemon]
                    if not pend:
                        break
                    done, _p = await asyncio.wait(pend, timeout=1)
                    for t in done:
                        if not t.cancelled() and t.exception() is not None:
                            self.bgexc.append(type(t.exception()).__name__)
                return r
            return self.loop.run_until_complete(_w())
        return x

    def _call(self, fn, *a, **k):
        if self.is_async:
            async def _w():
                return await fn(*a, **k)
            return self._run(_w())
        return fn(*a, **k)

    def reset(self):
        cfg = self.cfg
        self._nsteps = 0
        kw = dict(async_handlers=cfg.get('async_handlers', False),
                  always_connect=cfg.get('always_connect', False),
                  ping_timeout=10 ** 6, ping_interval=10 ** 6,
                  monitor_clients=False,
                  serializer=cfg.get('serializer', 'default'))
        ns_opt = cfg.get('ns_opt', 'default')
        if ns_opt != 'default':
            kw['namespaces'] = ns_opt
        kw.update(self._extra_server_kw())
        if self.is_async:
            asyncio.set_event_loop(self.loop)
            sio = socketio.AsyncServer(async_mode='asgi', **kw)
        else:
            sio = socketio.Server(async_mode='threading', **kw)
        self.sio = sio
        for lg in (sio.eio.logger, sio.logger):
            if self.tap not in lg.handlers:
                lg.addHandler(self.tap)
            lg.propagate = False
            for h in list(lg.handlers):
                if isinstance(h, logging.StreamHandler) and h is not self.tap:
                    lg.removeHandler(h)
        self.socks = {}          # t -> engineio socket
        self.eid = {}            # t -> eio sid
        self.closed = set()      # transports that ended
        self.names = {}          # real sid -> 's1'...
        self.rnames = {}
        self.gone_ids = set()    # real ids (sids, eio sids) of departed clients
        self.owned = {}          # t -> set of real sids seen for it
        self.hc = []             # handler calls of the current action
        self.cbs = []            # callback invocations of the current action
        self.flags = {'raiseDisc': []}
        self.maxid = {}
        self.bg = []
        self.nbg = 0
        self.bgexc = []
        self.wait_script = None
        self.call_results = []
        if not self.is_async:
            sio.eio.create_event = lambda *a, **k: HarnessEvent(self)
        if not self.is_async:
            def sbt(target, *a, **k):
                def guarded(*a, **k):
                    try:
                        return target(*a, **k)
                    except Exception as e:
                        self.bgexc.append(type(e).__name__)
                th = threading.Thread(target=guarded, args=a, kwargs=k,
                                      daemon=True)
                th.start()
                self.bg.append(th)
                self.nbg += 1
                return th
            sio.eio.start_background_task = sbt
        else:
            orig_sbt = sio.eio.start_background_task

            def asbt(target, *a, **k):
                self.nbg += 1
                return orig_sbt(target, *a, **k)
            sio.eio.start_background_task = asbt
        self._register_handlers()

    # ------------------------------------------------------------ handlers
    def _name(self, sid):
        if not isinstance(sid, str):
            return '?' + repr(sid)[:20]     # not a session id at all
        if sid not in self.names:
            n = 's%d' % (len(self.names) + 1)
            self.names[sid] = n
            self.rnames[n] = sid
        return self.names[sid]

    def _real_sid(self, name):
        # a sid token that was never allocated maps to an unknown id
        return self.rnames.get(name, 'unallocated-' + name)

    def _env_tok(self, environ):
        for t, s in self.socks.items():
            if self.sio.environ.get(self.eid[t]) is environ:
                if dict(environ) != getattr(self, 'env_orig', {}).get(t):
                    return '?env-changed:' + t
                return 'env:' + t
        return '?env'

    def _connect_behaviour(self, auth):
        b = auth if isinstance(auth, str) else \
            (auth or {}).get('b', 'ok') if isinstance(auth, dict) else 'ok'
        if auth is None and getattr(self, '_forced', None):
            # (RxConnect with auth "absent:<b>": nothing was sent, and the
            # application refuses this connection for reasons of its own)
            b = self._forced
        if b == 'false':
            return False
        if b == 'ref0':
            raise sio_exc.ConnectionRefusedError()
        if b == 'ref1':
            raise sio_exc.ConnectionRefusedError('m1')
        if b == 'ref2':
            raise sio_exc.ConnectionRefusedError('m1', 'd1')
        if b == 'ref3':
            raise sio_exc.ConnectionRefusedError('m1', 'd1', 'd2')
        if b == 'raise':
            raise Boom('connect')
        return None

    def _pre(self, sid, ns):
        """How many packets this step has already queued on the client's
        own transport (the queues are drained after every step)."""
        try:
            eid = self.sio.manager.rooms[ns][None][sid]
        except Exception:
            return 0
        for t, e in self.eid.items():
            if e == eid:
                n = 0
                for p in list(self.socks[t].queue.queue if hasattr(
                        self.socks[t].queue, 'queue') else
                        self.socks[t].queue._queue):
                    # (a binary packet is one text frame + its attachments;
                    # with msgpack every packet is one bytes frame)
                    if p is not None and \
                            p.packet_type == eio_packet.MESSAGE and (
                                not isinstance(p.data, bytes) or
                                self.cfg.get('serializer') == 'msgpack'):
                        n += 1
                return n
        return 0

    def _auth_tok(self, auth):
        if isinstance(auth, dict) and set(auth) == {'b'}:
            return 'auth:' + auth['b']
        return tok(auth)

    def _register_handlers(self):
        sio = self.sio
        cfg = self.cfg
        hkind = cfg.get('hkind', 'fn')
        is_async = self.is_async
        me = self

        def on_connect(ns, target):
            def h(sid, environ, auth):
                me.hc.append({'h': target, 'ns': ns, 'ev': 'connect',
                              'sid': me._name(sid), 'pre': me._pre(sid, ns),
                              'args': [me._env_tok(environ),
                                       me._auth_tok(auth)]})
                return me._connect_behaviour(auth)
            return h

        def on_disconnect(ns, target):
            def h(sid, reason):
                me.hc.append({'h': target, 'ns': ns, 'ev': 'disconnect',
                              'sid': me._name(sid), 'pre': me._pre(sid, ns),
                              'args': [str(reason)]})
                if ns in me.flags['raiseDisc']:
                    raise Boom('disconnect')
            return h

        def on_event(ns, ev, target):
            def h(sid, *args):
                me.hc.append({'h': target, 'ns': ns, 'ev': ev,
                              'sid': me._name(sid), 'pre': me._pre(sid, ns),
                              'args': toks(args)})
                if EVENTS[ev] is None:
                    raise Boom(ev)
                return EVENTS[ev]()
            h.plain = sorted(EVENTS).index(ev) % 2 == 0
            return h

        def wrap(f):
            if not is_async:
                return f
            sig = inspect.signature(f)

            # keep the positional signature (the connect fallback relies on
            # TypeError from argument binding)
            if len(sig.parameters) == 3:
                async def c3(sid, environ, auth):
                    return f(sid, environ, auth)
                return c3
            if list(sig.parameters)[-1] == 'args':
                # on the asyncio server application handlers may be plain
                # functions too: every other event keeps a plain function
                if getattr(f, 'plain', False):
                    return f

                async def cv(sid, *args):
                    return f(sid, *args)
                return cv

            async def c2(sid, reason):
                return f(sid, reason)
            return c2

        # a function handler on the catch-all namespace for an event nobody
        # sends: it is responsible for nothing and must change nothing (in
        # particular it does not make unserved namespaces served)
        if cfg.get('star_dummy', True):
            def never(*a):
                me.hc.append({'h': '?star-dummy', 'ns': '*', 'ev': '?',
                              'sid': '?', 'pre': 0, 'args': toks(a)})
            if is_async:
                async def anever(*a):
                    never(*a)
                sio.on('zz_nobody_sends_this', anever, namespace='*')
            else:
                sio.on('zz_nobody_sends_this', never, namespace='*')
        if hkind == 'fn':
            for ns in cfg['ns_h']:
                sio.on('connect', wrap(on_connect(ns, 'fn')), namespace=ns)
                sio.on('disconnect', wrap(on_disconnect(ns, 'fn')),
                       namespace=ns)
                for ev in EVENTS:
                    sio.on(ev, wrap(on_event(ns, ev, 'fn')), namespace=ns)
        else:
            base = socketio.AsyncNamespace if is_async else socketio.Namespace
            for ns in cfg['ns_h']:
                body = {'on_connect': staticmethod(
                            wrap(on_connect(ns, 'class'))),
                        'on_disconnect': staticmethod(
                            wrap(on_disconnect(ns, 'class')))}
                for ev in EVENTS:
                    body['on_' + ev] = staticmethod(
                        wrap(on_event(ns, ev, 'class')))
                cls = type('NS', (base,), body)
                sio.register_namespace(cls(ns))

    # ------------------------------------------------------------- actions
    def _frames(self, a):
        """Rx* action -> list of engine.io MESSAGE payloads."""
        if self.cfg.get('serializer') == 'msgpack':
            return self._frames_mp(a)
        return self._frames_with(a, refcodec.ref_encode)

    def _frames_mp(self, a):
        if a['act'] == 'RxRaw':
            return [MP_RAW_FRAMES[a['frame']]()]
        return self._frames_with(a, refcodec.mp_encode)

    def _frames_with(self, a, enc):
        act = a['act']
        ns = a.get('ns')
        if act == 'RxConnect':
            auth = a['auth']
            self._forced = auth[7:] if auth.startswith('absent:') else None
            data = None if auth.startswith('absent') else {'b': auth[5:]} \
                if auth.startswith('auth:') else val(auth)
            return enc(0, ns, None, data)
        if act == 'RxDisconnect':
            return enc(1, ns)
        if act == 'RxEvent':
            id = None if a['id'] < 0 else a['id']
            return enc(
                2, ns, id, [a['ev']] + [val(x) for x in a['args']])
        if act == 'RxAck':
            return enc(
                3, ns, a['id'], [val(x) for x in a['args']])
        if act == 'RxRaw':
            return [RAW_FRAMES[a['frame']]]
        raise KeyError(act)

    def _fuzz_frame(self, a):
        """An arbitrary frame (C12 random tier): a function of the action's
        seed and of what a hostile client may know or guess - the
        namespaces, the event names, the bystanders' session ids and
        outstanding ack ids."""
        from . import fuzz
        off = a['t']
        mine = self.owned.get(off, set())
        sids = sorted(s for s in self.names if s not in mine)
        ack_ids = sorted({i for s in sids for i in dict.get(
            self.sio.manager.callbacks, s, {}) if isinstance(i, int)})
        my_nss = sorted(ns for ns, rs in self.sio.manager.rooms.items()
                        if any(x in mine for x in (rs.get(None) or {})))
        env = {'nss': list(self.cfg['ns_all']) + ['/zzz'], 'my_nss': my_nss,
               'events': sorted(EVENTS) + ['*', 'nobody'],
               'sids': sids, 'ack_ids': ack_ids,
               'stuck': bool(getattr(self.sio, '_binary_packet', {}).get(
                   self.eid.get(off))),
               'serializer': self.cfg.get('serializer')}
        # (a different frame at every position of a history; a replay of
        # the history sends the same frames)
        from . import common
        self.last_fuzz = fuzz.frame(
            (common.seed() * 1009 + a['seed']) * 100003 + self._nsteps, env)
        return self.last_fuzz

    def _feed(self, t, frame):
        s = self.socks[t]
        return self._run(s.receive(eio_packet.Packet(eio_packet.MESSAGE,
                                                     frame)))

    def _finish_bg(self):
        for th in self.bg:
            th.join(5)
        self.bg = []

    def _track_owned(self):
        tname = {e: t for t, e in self.eid.items()}
        for ns, rs in self.sio.manager.rooms.items():
            for sid, eid in (rs.get(None) or {}).items():
                if eid in tname and ns not in self._hidden_ns():
                    self.owned[tname[eid]].add(sid)

    def _lose(self, t, reason):
        self._track_owned()
        s = self.socks[t]
        self._run(s.close(wait=False, abort=True, reason=reason))
        self._after_lose(t)

    def _after_lose(self, t):
        # what engine.io's request handling does when it notices the end
        eid = self.eid[t]
        if eid in self.sio.eio.sockets and self.sio.eio.sockets[eid].closed:
            del self.sio.eio.sockets[eid]
        self.closed.add(t)
        self.gone_ids.add(eid)
        self.gone_ids.update(self.owned.get(t, ()))

    def apply(self, a):
        """Execute one abstract action against the real server; return the
        observed output record."""
        sio = self.sio
        self._nsteps += 1
        self.hc = []
        self.cbs = []
        self.bgexc = []
        self.nbg = 0
        del self.tap.seen[:]
        res = ['ok']
        act = a['act']
        # steps of a partially received binary packet: Rx frames one at a time
        try:
            if act == 'EioOpen':
                t = a['t']
                cls = engineio.async_socket.AsyncSocket if self.is_async \
                    else engineio.socket.Socket
                eid = sio.eio.generate_id()
                s = cls(sio.eio, eid)
                sio.eio.sockets[eid] = s
                s.connected = True
                self.socks[t] = s
                self.eid[t] = eid
                self.owned[t] = set()
                # the request environment of the handshake (what the
                # application sees must be what the client sent)
                env = {'t': t, 'REQUEST_METHOD': 'GET',
                       'HTTP_AUTHORIZATION': 'Bearer tok-' + t,
                       'HTTP_PROXY_AUTHORIZATION': 'Basic p-' + t,
                       'HTTP_COOKIE': 'c=' + t, 'QUERY_STRING': 'EIO=4'}
                self.env_orig = getattr(self, 'env_orig', {})
                self.env_orig[t] = dict(env)
                self._run(sio.eio._trigger_event('connect', eid, env))
            elif act == 'EioLost':
                self._lose(a['t'], a['reason'])
            elif act == 'RxAckDup':
                f = self._frames(dict(a, act='RxAck'))[0]
                if self.is_async:
                    # engine.io hands every message to its own task: the
                    # second ACK is processed while the first one's callback
                    # may still be suspended
                    s_ = self.socks[a['t']]

                    async def both():
                        await asyncio.gather(
                            s_.receive(eio_packet.Packet(eio_packet.MESSAGE,
                                                         f)),
                            s_.receive(eio_packet.Packet(eio_packet.MESSAGE,
                                                         f)))
                    self._run(both())
                else:
                    self._feed(a['t'], f)
                    self._feed(a['t'], f)
            elif act in ('RxConnect', 'RxDisconnect', 'RxEvent', 'RxAck',
                         'RxRaw'):
                for f in self._frames(a):
                    self._feed(a['t'], f)
            elif act == 'RxFuzz':
                self._feed(a['t'], self._fuzz_frame(a))
            elif act == 'RxFrame':
                # one frame of a multi-frame packet (binary header or
                # attachment), see alphabet: {'kind': 'hdr'|'att', ...}
                self._feed(a['t'], self._bin_frame(a))
            elif act == 'Emit':
                kw = {}
                if a['cb']:
                    me = self

                    def cb0(*args, _tag=a['cb']):
                        me.cbs.append({'tag': _tag, 'args': toks(args)})
                        if me.flags.get('cbRaise'):
                            if me.is_async and me.cfg.get('cb_cancel'):
                                # the callback awaited something that was
                                # cancelled
                                raise asyncio.CancelledError()
                            raise Boom('callback')
                    if self.is_async:
                        # a coroutine callback that really suspends: a
                        # duplicate ACK handled by another task runs meanwhile
                        async def cb(*args):
                            await asyncio.sleep(0)
                            try:
                                return cb0(*args)
                            finally:
                                await asyncio.sleep(0)
                    else:
                        cb = cb0
                    cb.tag = a['cb']
                    kw['callback'] = cb
                self._call(sio.emit, a['ev'], self._emit_data(a),
                           to=self._to(a['toKind'], a['to']),
                           skip_sid=self._skip(a['skipKind'], a['skip']),
                           namespace=a['ns'], **kw)
            elif act == 'EnterRoom':
                self._call(sio.enter_room, self._real_sid(a['sid']),
                           self._room(a['room']), namespace=a['ns'])
            elif act == 'LeaveRoom':
                self._call(sio.leave_room, self._real_sid(a['sid']),
                           self._room(a['room']), namespace=a['ns'])
            elif act == 'CloseRoom':
                self._call(sio.close_room, self._room(a['room']),
                           namespace=a['ns'])
            elif act == 'Rooms':
                r = sio.rooms(self._real_sid(a['sid']), namespace=a['ns'])
                res = ['ok'] + sorted(self._room_tok(x) for x in r)
            elif act == 'Disconnect':
                self._call(sio.disconnect, self._real_sid(a['sid']),
                           namespace=a['ns'])
            elif act == 'SaveSession':
                # the key itself names the value: a save that merges into the
                # previous contents instead of replacing them shows
                self._call(sio.save_session, self._real_sid(a['sid']),
                           {'k_' + a['val']: 1}, namespace=a['ns'])
            elif act == 'GetSession':
                r = self._call(sio.get_session, self._real_sid(a['sid']),
                               namespace=a['ns'])
                res = ['ok', self._sess_tok(r)]
            elif act == 'SessionBlock':
                res = ['ok', self._session_block(a)]
            elif act == 'SessionNested':
                res = ['ok', self._session_nested(a)]
            elif act == 'SessionBlockD':
                res = ['ok', self._session_block_d(a)]
            elif act == 'GetEnviron':
                r = sio.get_environ(self._real_sid(a['sid']),
                                    namespace=a['ns'])
                res = ['ok', 'None' if r is None else self._env_tok(r)]
            elif act == 'Arm':
                fl = self.flags['raiseDisc']
                if a['ns'] in fl:
                    fl.remove(a['ns'])
                else:
                    fl.append(a['ns'])
                    fl.sort()
            elif act == 'Call':
                res = self._do_call(a)
            elif self._extra_act(a):
                pass
            else:
                raise KeyError('unknown action ' + act)
        except Exception as e:  # the API call raised
            res = ['exc', type(e).__name__]
        self._finish_bg()
        self._track_owned()
        if self.tap.seen and res == ['ok']:
            res = ['contained'] + list(self.tap.seen)
            if act in ('RxRaw', 'RxFuzz'):
                res = ['contained', 'X']   # which exception is immaterial
            if act == 'RxFrame' and self.cfg.get('serializer') == 'msgpack':
                res = ['contained', 'ValueError']
        if self.bgexc and res == ['ok']:
            res = ['bgexc'] + list(self.bgexc)
        rset = []
        if act == 'Rooms' and res[0] == 'ok':
            rset = res[1:]
            res = ['ok']
        out = {'pk': self._drain(), 'hc': self._sorted_hc(a), 'res': res,
               'cbs': self.cbs, 'set': rset, 'bg': self.nbg}
        return out

    def _sorted_hc(self, a):
        # the order across namespaces in EioLost follows the manager's dict
        # order, which the model tracks (nsOrder)
        return self.hc

    def _emit_data(self, a):
        d = a.get('data', 'v1')
        if d == 'tup2':
            return (val('v1'), val('v2'))
        if d == 'none':
            return None
        return val(d)

    def _room(self, r):
        # a room token of the form s<k> is "the room whose name is the real
        # session id of s<k>" (personal room / custom room named like a sid)
        if r[0] == 's' and r[1:].isdigit():
            return self._real_sid(r)
        if r == 'rz0':
            return 0        # a room whose name is falsy (an integer id)
        return r

    def _room_tok(self, r):
        if r in self.names:
            return self.names[r]
        if r == 0 and type(r) is int:
            return 'rz0'
        return r if isinstance(r, str) else '?' + repr(r)

    def _to(self, kind, to):
        if kind == 'none':
            return None
        if kind == 'one':
            return self._room(to[0])
        return [self._room(x) for x in to]

    def _skip(self, kind, skip):
        if kind == 'none':
            return None
        if kind == 'one':
            return self._real_sid(skip[0])
        return [self._real_sid(x) for x in skip]

    def _sess_tok(self, r):
        if r == {}:
            return 'empty'
        if isinstance(r, dict) and len(r) == 1:
            k, v = next(iter(r.items()))
            if isinstance(k, str) and k.startswith('k_') and v == 1:
                return k[2:]
        return '?' + repr(r)[:40]

    def _session_block(self, a):
        sio = self.sio
        sid = self._real_sid(a['sid'])
        if self.is_async:
            async def _w():
                async with sio.session(sid, namespace=a['ns']) as s:
                    before = self._sess_tok(s)
                    s.clear()
                    s['k_' + a['val']] = 1
                    return before
            return self._run(_w())
        with sio.session(sid, namespace=a['ns']) as s:
            before = self._sess_tok(s)
            s.clear()
            s['k_' + a['val']] = 1
            return before

    def _session_block_d(self, a):
        """A session block that is still open while its client leaves the
        namespace, comes back as a new session id on the same transport and
        has a session saved (what another thread / task does meanwhile is
        done inline here)."""
        sio = self.sio
        ns = a['ns']
        sid = self._real_sid(a['sid'])
        eid = sio.manager.eio_sid_from_sid(sid, ns)
        t = [k for k, v in self.eid.items() if v == eid][0]
        sock = self.socks[t]
        enc = refcodec.mp_encode if self.cfg.get('serializer') == 'msgpack' \
            else refcodec.ref_encode
        frames = [enc(1, ns)[0], enc(0, ns, None, None)[0]]

        def new_sid():
            real = sio.manager.sid_from_eio_sid(eid, ns)
            if self._name(real) != a['newsid']:
                raise RuntimeError('harness: unexpected session id')
            return real
        if self.is_async:
            async def _w():
                async with sio.session(sid, namespace=ns) as s:
                    before = self._sess_tok(s)
                    s.clear()
                    s['k_' + a['val']] = 1
                    for f in frames:
                        await sock.receive(eio_packet.Packet(
                            eio_packet.MESSAGE, f))
                    await sio.save_session(new_sid(), {'k_' + a['val2']: 1},
                                           namespace=ns)
                    return before
            return self._run(_w())
        with sio.session(sid, namespace=ns) as s:
            before = self._sess_tok(s)
            s.clear()
            s['k_' + a['val']] = 1
            for f in frames:
                self._feed(t, f)
            sio.save_session(new_sid(), {'k_' + a['val2']: 1}, namespace=ns)
            return before

    def _session_nested(self, a):
        """An outer block that only looks, an inner block (same client, same
        namespace) that writes."""
        sio = self.sio
        sid = self._real_sid(a['sid'])
        if self.is_async:
            async def _w():
                async with sio.session(sid, namespace=a['ns']) as outer:
                    before = self._sess_tok(outer)
                    async with sio.session(sid, namespace=a['ns']) as s:
                        s.clear()
                        s['k_' + a['val']] = 1
                    return before
            return self._run(_w())
        with sio.session(sid, namespace=a['ns']) as outer:
            before = self._sess_tok(outer)
            with sio.session(sid, namespace=a['ns']) as s:
                s.clear()
                s['k_' + a['val']] = 1
            return before

    def _bin_frame(self, a):
        if a['kind'] in ('hdr', 'hdrbad') and \
                self.cfg.get('serializer') == 'msgpack':
            # a packet that CLAIMS to be a binary event: the msgpack
            # serializer never produces one, a hostile client can
            ptype = 5 if a['ty'] == 'BINARY_EVENT' else 6
            data = [a['ev']] if ptype == 5 else []
            return refcodec.mp_encode(ptype, a['ns'], None if a['id'] < 0
                                      else a['id'], data)[0]
        if a['kind'] in ('hdr', 'hdrbad'):
            ptype = 5 if a['ty'] == 'BINARY_EVENT' else 6
            id = None if a['id'] < 0 else a['id']
            data = [{'_placeholder': True, 'num': i}
                    for i in range(min(a['n'], 3))]
            if a['kind'] == 'hdrbad':
                # a placeholder that points outside the attachments
                data[-1]['num'] = 7
            if ptype == 5:
                data = [a['ev']] + data
            text = str(ptype) + str(a['n']) + '-'
            if a['ns'] != '/':
                text += a['ns'] + ','
            if id is not None:
                text += str(id)
            import json
            return text + json.dumps(data, separators=(',', ':'))
        return val(a['b'])

    def _do_call(self, a):
        """sio.call() with a scripted world: what happens while it waits."""
        sio = self.sio
        steps = a['during']   # list of sub-actions executed inside wait()
        me = self

        def script():
            for st in steps:
                sub = dict(st)
                if sub['t'] in me.closed or sub['t'] not in me.socks:
                    continue
                if sub['act'] in ('RxAck',):
                    for f in me._frames(sub):
                        me._feed(sub['t'], f)
                elif sub['act'] == 'EioLost':
                    me._lose(sub['t'], sub['reason'])
        def run(steps_):
            for st in steps_:
                sub = dict(st)
                if sub['t'] in me.closed or sub['t'] not in me.socks:
                    continue
                if sub['act'] in ('RxAck',):
                    for f in me._frames(sub):
                        me._feed(sub['t'], f)
                elif sub['act'] == 'EioLost':
                    me._lose(sub['t'], sub['reason'])
        if self.is_async:
            return self._do_call_async(a, script)
        orig_send = sio.eio.send
        orig_create = sio.eio.create_event
        if a.get('before'):
            # other threads get ahead while call() is still preparing (it
            # creates its event before it emits)
            done = []

            def create(*x, **k):
                if not done:
                    done.append(1)
                    run(a['before'])
                return orig_create(*x, **k)
            sio.eio.create_event = create
        if a.get('early'):
            # the client answers at once: the ACK (or the loss) is processed
            # by another thread before call() has started to wait
            fired = []

            def send(*x, **k):
                r = orig_send(*x, **k)
                if not fired:
                    fired.append(1)
                    script()
                return r
            sio.eio.send = send

            def late():
                if not fired:          # nothing was sent: nobody to answer
                    fired.append(1)
                    script()
            self.wait_script = late
        else:
            self.wait_script = script
        try:
            r = sio.call(a['ev'], val('v1'), to=self._real_sid(a['sid']),
                         namespace=a['ns'], timeout=1)
        finally:
            self.wait_script = None
            sio.eio.send = orig_send
            sio.eio.create_event = orig_create
        return ['ok'] + self._shape(r)

    def _shape(self, r):
        if r is None:
            return ['none']
        if isinstance(r, tuple):
            return ['tuple'] + toks(r)
        return ['one', tok(r)]

    def _do_call_async(self, a, script):
        sio = self.sio
        steps = a['during']
        me = self

        async def world(steps=steps):
            if True:
                for st in steps:
                    if st['t'] in me.closed or st['t'] not in me.socks:
                        continue
                    if st['act'] == 'RxAck':
                        for f in me._frames(st):
                            await me.socks[st['t']].receive(
                                eio_packet.Packet(eio_packet.MESSAGE, f))
                    elif st['act'] == 'EioLost':
                        me._track_owned()
                        await me.socks[st['t']].close(
                            wait=False, abort=True, reason=st['reason'])
                        me._after_lose(st['t'])

        async def _w():
            orig_send = sio.eio.send
            fired = []
            if a.get('early'):
                async def send(*x, **k):
                    r = await orig_send(*x, **k)
                    if not fired:
                        fired.append(1)
                        await world()
                    return r
                sio.eio.send = send
            try:
                # (call() creates its event - the point where the others get
                # ahead - only after it has checked that it may run at all)
                if a.get('before') and sio.async_handlers:
                    await world(a['before'])
                call = asyncio.ensure_future(
                    sio.call(a['ev'], val('v1'), to=me._real_sid(a['sid']),
                             namespace=a['ns'], timeout=1))
                # the world moves only while call() is blocked in its wait
                for _ in range(5):
                    await asyncio.sleep(0)
                if not call.done() and not fired:
                    fired.append(1)
                    await world()
                return await call     # virtual time: unanswered = time-out
            finally:
                sio.eio.send = orig_send
        self.wait_script = None
        r = self._run(_w())
        return ['ok'] + self._shape(r)

    # ---------------------------------------------------------- observation
    def _drain(self):
        """Everything queued on every live transport during the action, read
        with the reference reader."""
        pk = {}
        for t, s in self.socks.items():
            frames = []
            q = s.queue
            while True:
                try:
                    p = q.get_nowait()
                except Exception:
                    break
                if p is None:
                    continue
                if p.packet_type != eio_packet.MESSAGE:
                    frames.append('?eio%d' % p.packet_type)
                else:
                    frames.append(p.data)
            if frames:
                rd = refcodec.mp_read_frames if self.cfg.get(
                    'serializer') == 'msgpack' else refcodec.read_frames
                pk[t] = [self._pkt_tok(p) for p in rd(frames)]
                for p in pk[t]:
                    if p['ty'] in ('EVENT', 'BINARY_EVENT') and p['id'] >= 0:
                        who = self._sid_name_of(t, p['ns'])
                        self.maxid[who] = max(self.maxid.get(who, 0), p['id'])
        return pk

    def _sid_name_of(self, t, ns):
        members = self.sio.manager.rooms.get(ns, {}).get(None, {})
        for sid, eid in members.items():
            if eid == self.eid[t]:
                return self._name(sid)
        return '?nobody'

    def _pkt_tok(self, p):
        ty = p['type']
        if ty == 'BAD':
            return {'ty': 'BAD:' + p['why'], 'ns': '/', 'id': -1, 'data': []}
        name = PKT_NAMES[ty]
        d = p['data']
        if ty == 0:
            if isinstance(d, dict) and set(d) == {'sid'}:
                sid = d['sid']
                data = ['sid', self._name(sid)]
            else:
                data = ['?' + repr(d)[:40]]
        elif ty in (1, 4):
            if d is None:
                data = []
            elif isinstance(d, str):
                data = [d]
            elif isinstance(d, dict):
                data = ['%s=%s' % (k, self._err_tok(d[k])) for k in sorted(d)]
            else:
                data = ['?' + repr(d)[:40]]
        else:
            if not isinstance(d, list):
                data = ['?' + repr(d)[:40]]
            elif ty in (2, 5):
                data = [d[0] if isinstance(d[0], str) else '?ev'] + \
                    toks(d[1:])
            else:
                data = toks(d)
        return {'ty': name, 'ns': p['ns'],
                'id': -1 if p['id'] is None else p['id'], 'data': data}

    def _err_tok(self, v):
        if isinstance(v, str):
            return v
        if isinstance(v, (list, tuple)):
            return '(' + ','.join(self._err_tok(x) for x in v) + ')'
        return '?' + repr(v)[:30]

    def project(self):
        """Real objects -> abstract state (JSON-able, canonical)."""
        sio = self.sio
        m = sio.manager
        tname = {e: t for t, e in self.eid.items()}
        eio = {}
        for t in self.cfg['transports']:
            eio[t] = 'none' if t not in self.socks else \
                'closed' if t in self.closed else 'open'
        hidden = self._hidden_ns()
        rooms = {}
        for ns, rs in m.rooms.items():
            if ns in hidden:
                continue
            rooms[ns] = {}
            if len(rs) == 0:
                rooms[ns]['?empty-namespace'] = {}
            for r, members in rs.items():
                key = 'None' if r is None else self._room_tok(r)
                d = {}
                for sid, eid in members.items():
                    n = self._name(sid)
                    d[n] = tname.get(eid, '?' + str(eid))
                rooms[ns][key] = d
        pending = {ns: [self._name(s) for s in lst]      # a list, in order
                   for ns, lst in m.pending_disconnect.items()
                   if ns not in hidden}
        hidden_sids = set()
        for ns in hidden:
            hidden_sids.update((m.rooms.get(ns) or {}).get(None) or {})
        cb = {}
        # (the ack-id counters live in their own table: a counter without a
        # callbacks entry is still something the manager keeps for the client)
        cbs_all = dict(m.callbacks)
        for sid in getattr(m, 'ack_counters', {}):
            cbs_all.setdefault(sid, {})
        for sid, d in cbs_all.items():
            if sid in hidden_sids:
                continue
            n = self._name(sid) if sid in self.names else self._room_tok(sid)
            out = {str(k): self._cb_tok(v)
                   for k, v in d.items() if callable(v)}
            # call()'s internal callback is named after the id it waits for
            out = {k: ('call:%s:%s' % (n, k) if v == 'call' else v)
                   for k, v in out.items()}
            cb[n] = {'next': self._cb_next(sid, n, d), 'out': out}
        binbuf = {}
        for eid, p in sio._binary_packet.items():
            binbuf[tname.get(eid, '?' + str(eid))] = {
                'ty': PKT_NAMES[p.packet_type] if isinstance(
                    p.packet_type, int) and 0 <= p.packet_type < 7 else '?',
                'ns': p.namespace or '/',
                'id': -1 if p.id is None else p.id,
                'ev': p.data[0] if p.packet_type == 5 and isinstance(
                    p.data, list) and p.data and isinstance(p.data[0], str)
                else '',
                'owed': p.attachment_count, 'bad': _bad_placeholders(p),
                # (received attachments only: anything longer than the frames
                # the client really sent is space reserved on its say-so)
                'atts': toks(p.attachments) if len(p.attachments) <= 16
                else ['?%d-slots-reserved' % len(p.attachments)]}
        sess = {}
        for t, s in self.socks.items():
            if t in self.closed:
                continue
            if s.session:
                sess[t] = {ns: self._sess_tok(v)
                           for ns, v in s.session.items()}
        environ = sorted(tname.get(e, '?' + str(e)) for e in sio.environ
                         if e not in self._hidden_eids())
        st = {'eio': eio, 'environ': environ,
              'nextSid': len(self.names) + 1,
              'rooms': rooms,
              'nsOrder': [n for n in m.rooms.keys() if n not in hidden],
              'pending': pending, 'cb': cb,
              'binbuf': binbuf, 'sess': sess,
              'residue': self._residue(),
              'raiseDisc': list(self.flags['raiseDisc'])}
        return st

    def _residue(self):
        """Anything reachable from the server object that still names a
        departed client (a walk over containers and instance dicts)."""
        if not self.gone_ids:
            return []
        gone = self.gone_ids
        seen = set()
        found = set()
        stack = [(self.sio, 'sio')]
        m = self.sio.manager
        # these are projected explicitly (rooms, pending, cb, environ, binbuf);
        # the scan is for everything the model does NOT know about
        modelled = [m.rooms, m.pending_disconnect, m.callbacks,
                    getattr(m, 'ack_counters', None),
                    self.sio.environ, self.sio._binary_packet]
        skip_types = (type, type(sys), logging.Logger, logging.Handler,
                      threading.Thread, asyncio.AbstractEventLoop)
        while stack:
            o, path = stack.pop()
            if id(o) in seen:
                continue
            seen.add(id(o))
            if isinstance(o, str):
                if o in gone:
                    found.add(path)
                continue
            if isinstance(o, (int, float, bytes, bool, type(None))):
                continue
            if isinstance(o, skip_types) or inspect.isroutine(o) or \
                    inspect.ismodule(o) or inspect.isclass(o):
                continue
            if o is self or o is self.tap or any(o is x for x in modelled) \
                    or any(o is x for x in self._harness_objects()):
                continue
            if isinstance(o, dict):
                for k, v in o.items():
                    stack.append((k, path + '.key'))
                    stack.append((v, path + '[]'))
            elif isinstance(o, (list, tuple, set, frozenset)):
                for v in o:
                    stack.append((v, path + '[]'))
            else:
                d = getattr(o, '__dict__', None)
                if isinstance(d, dict):
                    for k, v in d.items():
                        if k.startswith('__'):
                            continue
                        stack.append((v, path + '.' + k))
                # bidict and friends
                if hasattr(o, 'items') and not isinstance(o, dict):
                    try:
                        for k, v in o.items():
                            stack.append((k, path + '.key'))
                            stack.append((v, path + '[]'))
                    except Exception:
                        pass
        # strip indices so that the abstract value is small and canonical
        return sorted(found)


def _bad_placeholders(p):
    """Some placeholder of the half-received packet cannot be resolved."""
    def walk(d):
        if isinstance(d, list):
            return any(walk(x) for x in d)
        if isinstance(d, dict):
            if d.get('_placeholder') and 'num' in d:
                n = d['num']
                return not (isinstance(n, int) and not isinstance(n, bool)
                            and 0 <= n < p.attachment_count)
            return any(walk(x) for x in d.values())
        return False
    return walk(p.data)


# hostile frames of the exhaustive C12 configuration, by expected class
RAW_FRAMES = {
    # contained: the server's message callback raises, engine.io contains it
    'empty': '', 'letter': 'x', 'type9': '9', 'type7': '7["a"]',
    'brackets': '[]', 'connerr': '4{"message":"x"}', 'badjson': '2[',
    'badjson2': '2{"a"', 'dictpayload': '2{"a":1}', 'emptylist': '2[]',
    'numpayload': '21', 'longid': '2' + '1' * 101 + '["e_v"]',
    # an integer literal of more than 100 digits anywhere in the JSON text is
    # not decoded (python-engineio's json front end)
    'longnum': '2["e_v",' + '7' * 101 + ']',
    'longnumack': '31[' + '7' * 150 + ']',
    'longnumconn': '0{"t":' + '7' * 101 + '}',
    'nsnocomma': '2/a', 'dashfirst': '2-["e_v"]',
    'deepjson': '2' + '[' * 2000 + ']' * 2000, 'bytes': b'\x00\x01',
    'count11': '512345678901-["e_v"]',
    # a stray binary frame (no attachment is owed) whose bytes spell a packet
    'bytesevent': b'2["e_v","v1"]', 'bytesdisc': b'1', 'bytesconn': b'0/a,',
    # ignored: decodes, but nothing is responsible / nothing happens
    'acknum': '31', 'strpayload': '2"abc"', 'intevent': '2[5]',
    'nullevent': '2[null,1]', 'ackunknownns': '3/zzz,1["v1"]',
    'evunknownns': '2/zzz,7["e_v","v1"]',
}
RAW_CLASS = {k: 'contained' for k in RAW_FRAMES}
for _k in ('acknum', 'strpayload', 'intevent', 'nullevent', 'ackunknownns',
           'evunknownns'):
    RAW_CLASS[_k] = 'ignored'
# "31" reads as an ACK for id 1 without any payload
RAW_CLASS['acknum'] = 'ackbare'


# the same for a server that uses the msgpack serializer
def _mp(obj):
    import msgpack
    return lambda: msgpack.dumps(obj)


MP_RAW_FRAMES = {
    'garbage': lambda: b'\xc1\xff\x00', 'empty': lambda: b'',
    'text': lambda: '2["e_v","v1"]',          # a text frame to a msgpack server
    'int': _mp(5), 'list': _mp([2, '/', ['e_v']]), 'nil': _mp(None),
    'notype': _mp({'data': ['e_v'], 'nsp': '/'}),
    'nonsp': _mp({'type': 2, 'data': ['e_v']}),
    'connerr': _mp({'type': 4, 'data': 'x', 'nsp': '/'}),
    'type9': _mp({'type': 9, 'data': None, 'nsp': '/'}),
    'typestr': _mp({'type': '2', 'data': ['e_v'], 'nsp': '/'}),
    'dictpayload': _mp({'type': 2, 'data': {'a': 1}, 'nsp': '/'}),
    'nodata': _mp({'type': 2, 'nsp': '/'}),
    'emptylist': _mp({'type': 2, 'data': [], 'nsp': '/'}),
    'deep': lambda: b'\x91' * 3000 + b'\xc0',
    # decodes, nothing is responsible / nothing happens
    'evunknownns': _mp({'type': 2, 'data': ['e_v', 'v1'], 'nsp': '/zzz',
                        'id': 7}),
    'ackunknownns': _mp({'type': 3, 'data': ['v1'], 'nsp': '/zzz', 'id': 1}),
    'intevent': _mp({'type': 2, 'data': [5], 'nsp': '/'}),
    'surplus': _mp({'type': 3, 'data': ['v1'], 'nsp': '/', 'id': 424242,
                    'extra': {'a': [1, 2]}, 'more': b'\x00'}),
}
MP_RAW_CLASS = {k: 'contained' for k in MP_RAW_FRAMES}
for _k in ('evunknownns', 'ackunknownns', 'intevent', 'surplus'):
    MP_RAW_CLASS[_k] = 'ignored'
