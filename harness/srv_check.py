"""G1 + G2 + G3 for one SioServer configuration."""
import json
import os
import sys
import time

from . import explore, srv, srv_alpha, tlc
from .tla_lit import lit

WORK = '/verif/.work'


def consts(cfg):
    ns_opt = cfg.get('ns_opt', 'default')
    listed = ['/'] if ns_opt == 'default' else \
        [] if ns_opt == '*' else list(ns_opt)
    return {
        'Transports': set(cfg['transports']),
        'NsH': set(cfg['ns_h']),
        'NsListed': set(listed),
        'NsStar': ns_opt == '*',
        'HKind': cfg.get('hkind', 'fn'),
        'AlwaysConnect': bool(cfg.get('always_connect', False)),
        'AsyncHandlers': bool(cfg.get('async_handlers', False)),
        'MaxSid': cfg['max_sid'],
        'MaxAck': cfg.get('max_ack', 0),
        'Dev': set(cfg.get('dev', [])),
    }


def mc_module(name, extends, cfg, alphabet):
    c = consts(cfg)
    lines = ['---- MODULE %s ----' % name, 'EXTENDS ' + extends, '']
    for k, v in c.items():
        lines.append('c_%s == %s' % (k, lit(v)))
    lines.append('c_Alphabet == <<')
    lines.append(',\n'.join('  ' + lit(a) for a in alphabet))
    lines.append('>>')
    lines.append('====')
    cfgl = ['CONSTANTS']
    for k in list(c) + ['Alphabet']:
        cfgl.append('  %s <- c_%s' % (k, k))
    return '\n'.join(lines), '\n'.join(cfgl) + '\n'


def factory_for(cfg):
    def f():
        return srv.SrvAdapter(cfg)
    return f


def run_config(name, cfg, invariants, log=print, workers=16):
    wd = os.path.join(WORK, name)
    os.makedirs(wd, exist_ok=True)
    alphabet = getattr(srv_alpha, cfg['alpha'])(cfg)
    en = srv_alpha.enabled(cfg)
    # --- G2: explore the implementation
    g = explore.explore(factory_for(cfg), alphabet, en, workers=workers,
                        log=log)
    gf = os.path.join(wd, 'graph.json')
    with open(gf, 'w') as f:
        json.dump({'nodes': g['nodes'], 'out': g['out'],
                   'edges': g['edges']}, f)
    log('impl graph: %d states %d edges depth %d in %.1fs' % (
        len(g['nodes']), len(g['edges']), g['depth'], g['wall']))
    mod, cfgc = mc_module('MCG', 'SioServerGraph', cfg, alphabet)
    cfgt = 'INIT GInit\nNEXT GNext\n' + cfgc + \
        'INVARIANT AllEdgesOK\nINVARIANT AlphabetComplete\n'
    r2 = tlc.run_tlc(wd, 'MCG', cfgt, env={'GRAPH_FILE': gf,
                                           'WITH_GHOSTS': '0'},
                     modules={'MCG': mod}, workers=workers)
    log('G2: %r wall %.1fs' % (r2, r2.wall))
    for pr in r2.prints[:3]:
        log('   ' + pr[:1500])
    # --- G1: model-check the spec itself
    mod1, cfgc1 = mc_module('MC', 'SioServer', cfg, alphabet)
    cfgt1 = 'INIT Init\nNEXT Next\n' + cfgc1 + \
        ''.join('INVARIANT %s\n' % i for i in invariants)
    r1 = tlc.run_tlc(wd, 'MC', cfgt1, modules={'MC': mod1}, workers=workers)
    log('G1: %r wall %.1fs' % (r1, r1.wall))
    # --- G3: count distinct core states of the spec
    mod3 = mod1.replace('====', 'CoreView == st\n====')
    r3 = tlc.run_tlc(wd, 'MC', cfgt1.replace('INIT Init', 'VIEW CoreView\nINIT Init'),
                     modules={'MC': mod3}, workers=workers)
    log('G3: spec core states %d vs impl %d' % (r3.distinct, len(g['nodes'])))
    return g, r1, r2, r3


if __name__ == '__main__':
    name = sys.argv[1]
    cfg = srv_alpha.CONFIGS[name]
    g, r1, r2, r3 = run_config(name, cfg, sys.argv[2:])
    for r in (r1, r2, r3):
        if not r.ok:
            print(r.out[-3000:])
