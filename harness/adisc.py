"""AsyncServer under a gate scheduler (C04, schedules): concurrent
terminating causes on one client.  Everything runs on one (virtual-time)
loop; the engine.io send and the application's disconnect handler are
coroutines that await a *gate*; the driver opens exactly one gate per step and
then lets the loop run until every task is parked on a gate or finished, so a
step is one code segment between two real suspension points."""
import asyncio
import logging

import engineio
import engineio.async_socket
import engineio.packet as eio_packet
import socketio

from . import vloop

logging.getLogger('asyncio').setLevel(logging.CRITICAL)
from .threads import ASYNC_LABELS, _cb_count   # noqa


import contextvars
# which controlled program a task belongs to (tasks it creates inherit it:
# AsyncManager.emit sends from child tasks)
OWNER = contextvars.ContextVar('owner', default=None)


class Gates:
    def __init__(self, loop):
        self.loop = loop
        self.parked = {}      # task name -> (label, future)
        self.tasks = {}       # name -> asyncio.Task
        self.results = {}

    async def gate(self, label):
        t = asyncio.current_task()
        name = OWNER.get() or t.get_name()
        if name not in self.tasks:
            return
        fut = self.loop.create_future()
        self.parked[name] = (label, fut)
        await fut

    def spawn(self, name, coro_fn):
        async def body():
            OWNER.set(name)
            await self.gate('start')
            try:
                await coro_fn()
                self.results[name] = 'ok'
            except Exception as e:
                self.results[name] = type(e).__name__
        self.tasks[name] = self.loop.create_task(body(), name=name)

    def settle(self):
        async def _s():
            for _ in range(200):
                await asyncio.sleep(0)
        self.loop.run_until_complete(_s())

    def step(self, name):
        label, fut = self.parked.pop(name)
        fut.set_result(None)
        self.settle()

    def label_of(self, name):
        if name in self.parked:
            return self.parked[name][0]
        return 'done'

    def runnable(self):
        return sorted(self.parked)

    def teardown(self):
        for t in self.tasks.values():
            t.cancel()
        self.settle()


class _Tap(logging.Handler):
    def __init__(self):
        super().__init__(level=logging.ERROR)
        self.by_task = {}

    def emit(self, record):
        if record.exc_info and record.exc_info[0] is not None:
            try:
                name = asyncio.current_task().get_name()
            except RuntimeError:
                name = '?'
            self.by_task.setdefault(name, []).append(
                record.exc_info[0].__name__)


class AsyncDiscAdapter:
    """cfg as threads.ThreadsAdapter: ops, two_ns, bystander."""

    def __init__(self, cfg):
        self.cfg = cfg
        self.loop = vloop.new_loop()
        self.g = None
        self.tap = _Tap()
        self.reset()

    def run(self, coro):
        return self.loop.run_until_complete(coro)

    def reset(self):
        if self.g is not None:
            self.g.teardown()
        cfg = self.cfg
        asyncio.set_event_loop(self.loop)
        self.g = g = Gates(self.loop)
        me = self

        # a task created by a controlled program starts when the driver
        # says so (between create_task() and the task's first step other
        # programs may run)
        def factory(loop, coro, **kw):
            owner = OWNER.get()
            if owner in g.tasks:
                async def started(c=coro):
                    await g.gate('task.start')
                    return await c
                return asyncio.Task(started(), loop=loop, **kw)
            return asyncio.Task(coro, loop=loop, **kw)
        self.loop.set_task_factory(factory)
        sio = socketio.AsyncServer(async_mode='asgi', async_handlers=False,
                                   ping_timeout=10 ** 6,
                                   monitor_clients=False)
        self.sio = sio
        for lg in (sio.eio.logger, sio.logger):
            lg.handlers = [self.tap]
            lg.propagate = False
        self.tap.by_task = {}
        self.hruns = {'c1': 0, 'cA': 0}
        self.names = {}

        def mk_handler(ns):
            async def h(sid, reason):
                await g.gate('handler')
                me.hruns[me.names.get(sid, '?')] += 1
            return h
        sio.on('disconnect', mk_handler('/'), namespace='/')
        sio.on('disconnect', mk_handler('/a'), namespace='/a')

        async def on_connect(sid, environ):
            return None
        sio.on('connect', on_connect, namespace='/')
        sio.on('connect', on_connect, namespace='/a')

        async def open_t(name):
            eid = sio.eio.generate_id()
            s = engineio.async_socket.AsyncSocket(sio.eio, eid)
            sio.eio.sockets[eid] = s
            s.connected = True
            await sio.eio._trigger_event('connect', eid, {'t': name})
            return eid, s

        async def setup():
            me.eid1, me.s1 = await open_t('t1')
            await me.s1.receive(eio_packet.Packet(eio_packet.MESSAGE, '0'))
            me.names[sio.manager.sid_from_eio_sid(me.eid1, '/')] = 'c1'
            if cfg.get('two_ns'):
                await me.s1.receive(eio_packet.Packet(eio_packet.MESSAGE,
                                                      '0/a,'))
                me.names[sio.manager.sid_from_eio_sid(me.eid1, '/a')] = 'cA'
            if cfg.get('bystander'):
                me.eid2, me.s2 = await open_t('t2')
                await me.s2.receive(eio_packet.Packet(eio_packet.MESSAGE,
                                                      '0'))
                me.names[sio.manager.sid_from_eio_sid(me.eid2, '/')] = 'cB'
        self.run(setup())
        self.rsid = {v: k for k, v in self.names.items()}
        while not self.s1.queue.empty():
            self.s1.queue.get_nowait()
        # ---- observation of task-local values (no pre-emption here: these
        # manager accesses do not suspend in asyncio)
        self.local = {}
        m = sio.manager

        def loc():
            try:
                return me.local.setdefault(asyncio.current_task().get_name(),
                                           {})
            except RuntimeError:
                return {}

        def note(obj, attr, on_call=None, on_ret=None, is_async=False):
            orig = getattr(obj, attr)
            if is_async:
                async def w(*a, **k):
                    if on_call:
                        on_call(loc(), a, k)
                    r = await orig(*a, **k)
                    if on_ret:
                        on_ret(loc(), r)
                    return r
            else:
                def w(*a, **k):
                    if on_call:
                        on_call(loc(), a, k)
                    r = orig(*a, **k)
                    if on_ret:
                        on_ret(loc(), r)
                    return r
            setattr(obj, attr, w)

        def sid_ns(l, a, k):
            l['sid'] = me.names.get(a[0], 'none') if a else 'none'
            l['ns'] = k.get('namespace', a[1] if len(a) > 1 else '/')

        def on_lookup(l, a, k):
            l['sid'] = 'none'
            l['ns'] = a[1]
            if 'snap' in l and a[1] in l['snap']:
                l['todo'] = l['snap'][l['snap'].index(a[1]) + 1:]

        def pre_call(l, a, k):
            sid_ns(l, a, k)
            l['dest'] = False
        note(m, 'can_disconnect', sid_ns, is_async=True)
        note(m, 'is_connected', sid_ns)
        note(m, 'pre_disconnect', pre_call,
             lambda l, r: l.__setitem__('dest', r is not None))
        note(m, 'disconnect', sid_ns, is_async=True)
        note(m, 'sid_from_eio_sid', on_lookup,
             lambda l, r: l.__setitem__('sid', me.names.get(r, 'none')))
        note(m, 'get_namespaces', None,
             lambda l, r: (l.__setitem__('snap', list(r)),
                           l.__setitem__('todo', list(r)[1:])))
        orig_send = sio.eio.send

        async def send(sid, data):
            # (the EVENT of an emit and the DISCONNECT of a termination are
            # different suspension points of different programs)
            await g.gate('eio.send_ev' if isinstance(data, str) and
                         data.startswith('2') else 'eio.send')
            return await orig_send(sid, data)
        sio.eio.send = send

        def runner(op, name):
            async def f():
                if op == 'api':
                    await sio.disconnect(me.rsid['c1'], namespace='/')
                elif op == 'api_other':
                    await sio.disconnect(me.rsid['cA'], namespace='/a')
                elif op == 'rxdisc':
                    await me.s1.receive(
                        eio_packet.Packet(eio_packet.MESSAGE, '1'))
                elif op == 'lost':
                    await me.s1.close(wait=False, abort=True,
                                      reason='transport close')
                elif op == 'emit_cb':
                    await sio.emit('msg', 'v1', to=me.rsid['c1'],
                                   namespace='/', callback=lambda *x: None)
                errs = me.tap.by_task.get(name)
                if errs:
                    raise type(errs[0], (Exception,), {})()
            return f
        for i, op in enumerate(cfg['ops']):
            name = 'T%d' % (i + 1)
            g.spawn(name, runner(op, name))
        g.settle()

    def apply(self, a):
        self.g.step('T%d' % a['i'])
        return {}

    def project(self):
        sio = self.sio
        m = sio.manager

        def member(name):
            sid = self.rsid.get(name)
            ns = '/a' if name == 'cA' else '/'
            return sid is not None and sid in m.rooms.get(ns, {}).get(None,
                                                                       {})
        pend = {}
        for name in ('c1', 'cA'):
            ns = '/a' if name == 'cA' else '/'
            pend[name] = list(m.pending_disconnect.get(ns, [])).count(
                self.rsid.get(name))
        items = []
        q = self.s1.queue
        while not q.empty():
            p = q.get_nowait()
            if p is not None:
                items.append(p)
        for p in items:
            q.put_nowait(p)
        sent = sum(1 for p in items
                   if p.packet_type == eio_packet.MESSAGE and
                   isinstance(p.data, str) and p.data.startswith('1'))
        th = []
        for i, op in enumerate(self.cfg['ops']):
            name = 'T%d' % (i + 1)
            l = self.local.get(name, {})
            pc = self.g.label_of(name)
            res = '' if pc != 'done' else self.g.results.get(name, 'ok')
            started = pc != 'start'
            sid = l.get('sid', 'none')
            ns = l.get('ns', '')
            th.append({'op': op, 'pc': pc, 'sid': sid if started else 'none',
                       'todo': list(l.get('todo', [])) if op == 'lost'
                       else [],
                       'ns': ns if started else '',
                       'dest': bool(l.get('dest', False)), 'res': res})
        return {'member': {'c1': member('c1'), 'cA': member('cA'),
                           'cB': member('cB')},
                'pending': pend, 'hruns': dict(self.hruns),
                'environ': self.eid1 in sio.environ,
                'sent': sent, 'open': not self.s1.closed, 'th': th,
                'cb': _cb_count(m, self.rsid.get('c1')),
                'runnable': [int(n[1:]) for n in self.g.runnable()]}
