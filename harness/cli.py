"""Client-side adapter: drives the real socketio.Client / AsyncClient (over
FakeEio) one abstract action at a time and projects it to the abstract state
of spec/SioClient.tla."""
import asyncio
import inspect

import socketio
from socketio import exceptions as sio_exc

from . import fakeeio, refcodec, vloop
from .srv import EVENTS, Boom, PKT_NAMES
from .tokens import val, tok, toks

import os as _os
assert socketio.__file__.startswith(
    _os.path.join(_os.environ.get('VERIF_REPO', '/repo'), 'src') + '/'), \
    socketio.__file__

AUTHS = {'none': None, 'val': {'tok': 'A1'}}


class CliAdapter:
    """cfg keys: ns_h, hkind ('fn'|'class'), asyncio, coro (handlers are
    coroutines), reconnection (bool) and reconnection parameters."""

    def __init__(self, cfg):
        self.cfg = cfg
        self.is_async = bool(cfg.get('asyncio'))
        self.loop = vloop.new_loop() if self.is_async else None
        self.reset()

    def _run(self, x):
        if inspect.isawaitable(x):
            return self.loop.run_until_complete(x)
        return x

    def reset(self):
        cfg = self.cfg
        if self.is_async:
            asyncio.set_event_loop(self.loop)
        self.world = fakeeio.World()
        kw = dict(reconnection=cfg.get('reconnection', False))
        for k in ('reconnection_attempts', 'reconnection_delay',
                  'reconnection_delay_max', 'randomization_factor'):
            if k in cfg:
                kw[k] = cfg[k]
        self.c = fakeeio.make_client(self.world, asyncio_based=self.is_async,
                                     **kw)
        if self.is_async and cfg.get('reconnection'):
            # the reconnection effort itself is C10's subject (Reconnect.tla):
            # here its task exists but has not begun to run
            c = self.c
            orig_sbt = c.start_background_task

            class Parked:
                def __await__(self):
                    return iter(())

                def cancel(self):
                    pass

            def sbt(target, *a, **k):
                if getattr(target, '__name__', '') == '_handle_reconnect':
                    return Parked()
                return orig_sbt(target, *a, **k)
            c.start_background_task = sbt
        self.hc = []
        self.cbs = []
        self.srv_acc = []       # namespaces the (conformant) server accepted
        self.srv_ans = []       # namespaces it has answered in this connection
        self.srv_req = []       # namespaces it received a CONNECT for
        self.next_sid = 1
        self.maxid = {}
        self.sidnames = {}
        self._register()

    # ------------------------------------------------------------ handlers
    def _register(self):
        me = self
        c = self.c
        coro = self.is_async and self.cfg.get('coro', False)

        def wrap(f):
            # (an AsyncClient's handlers may be plain functions too: every
            # other event keeps one)
            if not coro or getattr(f, 'plain', False):
                return f

            async def g(*a):
                # the handler is entered at once (its call is recorded), then
                # really suspends: whatever else has arrived is processed
                # meanwhile
                r = f(*a)
                await asyncio.sleep(0)
                return r
            return g

        def on_simple(ns, ev, target):
            def h(*args):
                me.hc.append({'h': target, 'ns': ns, 'ev': ev,
                              'args': [me._simple_tok(ev, a) for a in args]})
            return h

        def on_event(ns, ev, target):
            def h(*args):
                me.hc.append({'h': target, 'ns': ns, 'ev': ev,
                              'args': toks(args)})
                if EVENTS[ev] is None:
                    raise Boom(ev)
                return EVENTS[ev]()
            # (the two events of RxAttThenEvent both suspend, so that their
            # answers keep the order of arrival)
            h.plain = ev not in ('e_v', 'e_tup2') and \
                sorted(EVENTS).index(ev) % 2 == 0
            return h

        hk = self.cfg.get('hkind', 'fn')
        if hk == 'fn':
            for ns in self.cfg['ns_h']:
                for ev in ('connect', 'disconnect', 'connect_error'):
                    c.on(ev, wrap(on_simple(ns, ev, 'fn')), namespace=ns)
                for ev in EVENTS:
                    c.on(ev, wrap(on_event(ns, ev, 'fn')), namespace=ns)
                if self.cfg.get('also_class'):
                    # the same namespace ALSO has a class-based handler
                    # object (without methods: every event has a function)
                    c.register_namespace((
                        socketio.AsyncClientNamespace if self.is_async
                        else socketio.ClientNamespace)(ns))
        else:
            base = socketio.AsyncClientNamespace if self.is_async \
                else socketio.ClientNamespace
            for ns in self.cfg['ns_h']:
                body = {}
                for ev in ('connect', 'disconnect', 'connect_error'):
                    body['on_' + ev] = staticmethod(
                        wrap(on_simple(ns, ev, 'class')))
                for ev in EVENTS:
                    body['on_' + ev] = staticmethod(
                        wrap(on_event(ns, ev, 'class')))
                c.register_namespace(type('CN', (base,), body)(ns))

    def _simple_tok(self, ev, a):
        if ev in ('disconnect', 'connect_error'):
            if isinstance(a, str):
                return a
            if isinstance(a, dict):
                return ','.join('%s=%s' % (k, a[k]) for k in sorted(a))
        return tok(a)

    # ------------------------------------------------------------- stimuli
    def _deliver(self, frame):
        return self._run(self.c.eio.deliver(frame))

    def _srv_connect(self, ns):
        sid = 'S%d' % self.next_sid
        self.next_sid += 1
        self.srv_ans.append(ns)
        self.srv_acc.append(ns)
        self.srv_acc.sort()
        self.srv_ans.sort()
        return refcodec.ref_encode(0, ns, None, {'sid': sid})[0]

    def _srv_error(self, ns):
        self.srv_ans.append(ns)
        self.srv_ans.sort()
        return refcodec.ref_encode(4, ns, None, {'message': 'refused'})[0]

    def _reply_frames(self, batch):
        out = []
        for r in batch:
            out.append(self._srv_connect(r['ns']) if r['k'] == 'ok'
                       else self._srv_error(r['ns']))
        return out

    def _end_of_transport(self):
        self.srv_acc = []
        self.srv_ans = []
        self.srv_req = []

    def apply(self, a):
        c = self.c
        w = self.world
        self.hc = []
        self.cbs = []
        del w.log[:]
        res = ['ok']
        act = a['act']
        try:
            if act == 'Connect':
                res = self._connect(a)
            elif act == 'RxConnect':
                self._deliver(self._srv_connect(a['ns']))
            elif act == 'RxConnectError':
                self._deliver(self._srv_error(a['ns']))
            elif act == 'RxDisconnect':
                self.srv_acc.remove(a['ns'])
                self._deliver(refcodec.ref_encode(1, a['ns'])[0])
            elif act == 'RxEvent':
                id = None if a['id'] < 0 else a['id']
                for f in refcodec.ref_encode(
                        2, a['ns'], id,
                        [a['ev']] + [val(x) for x in a['args']]):
                    self._deliver(f)
            elif act == 'RxAck':
                for f in refcodec.ref_encode(3, a['ns'], a['id'],
                                             [val(x) for x in a['args']]):
                    self._deliver(f)
            elif act == 'RxAckDup':
                f = refcodec.ref_encode(3, a['ns'], a['id'],
                                        [val(x) for x in a['args']])[0]
                if self.is_async:
                    # engine.io hands every message to its own task
                    async def both():
                        await asyncio.gather(c.eio.deliver(f),
                                             c.eio.deliver(f))
                    self._run(both())
                else:
                    self._deliver(f)
                    self._deliver(f)
            elif act == 'RxFrame':
                self._deliver(self._bin_frame(a))
            elif act == 'RxAttThenEvent':
                f1 = self._bin_frame({'kind': 'att', 'b': a['b']})
                id = None if a['id'] < 0 else a['id']
                f2 = refcodec.ref_encode(
                    2, a['ns'], id,
                    [a['ev']] + [val(x) for x in a['args']])[0]
                if self.is_async:
                    # engine.io hands every message to its own task
                    async def both():
                        await asyncio.gather(c.eio.deliver(f1),
                                             c.eio.deliver(f2))
                    self._run(both())
                else:
                    self._deliver(f1)
                    self._deliver(f2)
            elif act == 'Emit':
                kw = {}
                if a['cb']:
                    kw['callback'] = self._mk_cb(a['cb'])
                self._run(c.emit(a['ev'], self._data(a['data']),
                                 namespace=a['ns'], **kw))
            elif act == 'Send':
                self._run(c.send(self._data(a['data']), namespace=a['ns']))
            elif act == 'Call':
                res = self._call(a)
            elif act == 'Disconnect':
                self._run(c.disconnect())
            elif act == 'TransportError':
                self._run(c.eio.transport_error())
            elif act == 'ServerClose':
                self._run(c.eio.server_close())
            else:
                raise KeyError(act)
        except Exception as e:
            res = ['exc', type(e).__name__]
        if self.is_async:
            self._drain_tasks()
        sent = self._drain()
        if c.eio.state == 'disconnected':
            self._end_of_transport()
        for ns in list(self.maxid):
            if ns not in c.callbacks:
                del self.maxid[ns]
        if w.log and res == ['ok']:
            res = ['contained'] + [x.split(':')[1] for x in w.log
                                   if x.startswith('contained:')]
            if res == ['contained']:
                res = ['ok']
        if self.cfg.get('implicit') and act == 'Connect':
            # (the same for the run of connect_error notifications of a
            # connection that could not be made)
            hc = self.hc
            i = 0
            while i < len(hc):
                j = i
                while j < len(hc) and hc[j]['ev'] == 'connect_error':
                    j += 1
                hc[i:j] = sorted(hc[i:j], key=lambda h: h['ns'])
                i = j + 1
        return {'sent': sent, 'hc': self.hc, 'cbs': self.cbs, 'res': res}

    def _drain_tasks(self):
        async def _w():
            for _ in range(20):
                pend = [t for t in asyncio.all_tasks()
                        if t is not asyncio.current_task()]
                if not pend:
                    return
                await asyncio.wait(pend, timeout=1)
        self.loop.run_until_complete(_w())

    def _mk_cb(self, tag):
        me = self
        if self.is_async:
            # a coroutine callback that really suspends: whatever else is
            # being processed concurrently (a duplicate ACK) runs meanwhile
            async def cb(*args):
                await asyncio.sleep(0)
                me.cbs.append({'tag': tag, 'args': toks(args)})
                await asyncio.sleep(0)
        else:
            def cb(*args):
                me.cbs.append({'tag': tag, 'args': toks(args)})
        cb.tag = tag
        return cb

    def _data(self, d):
        if d == 'tup2':
            return (val('v1'), val('v2'))
        if d == 'none':
            return None
        return val(d)

    def _bin_frame(self, a):
        import json
        if a['kind'] == 'hdr':
            ptype = 5 if a['ty'] == 'BINARY_EVENT' else 6
            id = None if a['id'] < 0 else a['id']
            data = [{'_placeholder': True, 'num': i}
                    for i in range(min(a['n'], 3))]
            if ptype == 5:
                data = [a['ev']] + data
            text = str(ptype) + str(a['n']) + '-'
            if a['ns'] != '/':
                text += a['ns'] + ','
            if id is not None:
                text += str(id)
            return text + json.dumps(data, separators=(',', ':'))
        return val(a['b'])

    def _connect(self, a):
        c = self.c
        w = self.world
        w.connect_outcomes = [a['eio']]
        batches = [list(b) for b in a['batches']]
        me = self

        def make_script(i):
            def script():
                if i + 1 < len(batches):
                    w.wait_script = make_script(i + 1)
                for f in me._reply_frames(batches[i]):
                    if me.is_async:
                        raise RuntimeError('sync path only')
                    c.eio.deliver(f)
            return script
        auth = AUTHS.get(a['auth'])
        if a['auth'] == 'callable':
            def auth():
                return {'tok': 'A2'}
        if self.is_async:
            return self._connect_async(a, auth, batches)
        if a['wait'] and batches:
            w.wait_script = make_script(0)
        try:
            c.connect('http://host', headers={'h': '1'}, auth=auth,
                      transports=['polling'],
                      namespaces=self._nss(a),
                      wait=a['wait'], wait_timeout=1)
        finally:
            w.wait_script = None
        return ['ok']

    def _nss(self, a):
        if self.cfg.get('implicit'):
            # the namespaces are left to the client: those of its handlers
            assert list(a['nss']) == sorted(self.cfg['ns_h'])
            return None
        return list(a['nss'])

    def _connect_async(self, a, auth, batches):
        """AsyncClient.connect waits with asyncio.wait_for(event.wait(),
        timeout): the server's replies are delivered by a task that runs
        while connect() is suspended; a batch that is empty lets the
        (tiny, real) timeout expire."""
        c = self.c
        me = self

        async def _w():
            state = {'done': False}

            async def server():
                for b in batches:
                    if state['done'] or not b:
                        return      # nothing more is sent: connect() times out
                    for f in me._reply_frames(b):
                        await c.eio.deliver(f)
                    # one batch per wake-up of connect()'s wait loop
                    while c._connect_event.is_set() and not state['done']:
                        await asyncio.sleep(0)
            if a['wait'] and batches:
                me.world.on_connected = lambda: (asyncio.ensure_future(server()),
                                                 None)[1]
            try:
                await c.connect('http://host', headers={'h': '1'}, auth=auth,
                                transports=['polling'],
                                namespaces=me._nss(a), wait=a['wait'],
                                wait_timeout=1)
            finally:
                state['done'] = True
                me.world.on_connected = None
            return ['ok']
        return self.loop.run_until_complete(_w())

    def _call(self, a):
        c = self.c
        w = self.world
        me = self
        steps = a['during']

        def deliver_all_sync():
            for st in steps:
                if st['act'] == 'RxAck':
                    for f in refcodec.ref_encode(
                            3, st['ns'], st['id'],
                            [val(x) for x in st['args']]):
                        c.eio.deliver(f)
                elif st['act'] == 'TransportError':
                    c.eio.transport_error()
        if not self.is_async:
            w.wait_script = deliver_all_sync
            try:
                r = c.call(a['ev'], val('v1'), namespace=a['ns'], timeout=1)
            finally:
                w.wait_script = None
            return ['ok'] + self._shape(r)

        async def _w():
            async def server():
                for st in steps:
                    if st['act'] == 'RxAck':
                        for f in refcodec.ref_encode(
                                3, st['ns'], st['id'],
                                [val(x) for x in st['args']]):
                            await c.eio.deliver(f)
                    elif st['act'] == 'TransportError':
                        await c.eio.transport_error()
            call = asyncio.ensure_future(
                c.call(a['ev'], val('v1'), namespace=a['ns'], timeout=1))
            # the world moves only while call() is blocked in its wait
            for _ in range(5):
                await asyncio.sleep(0)
            if not call.done():
                await server()
            r = await call
            return ['ok'] + me._shape(r)
        return self.loop.run_until_complete(_w())

    def _shape(self, r):
        if r is None:
            return ['none']
        if isinstance(r, tuple):
            return ['tuple'] + toks(r)
        return ['one', tok(r)]

    # ---------------------------------------------------------- observation
    def _drain(self):
        frames = list(self.c.eio.sent)
        del self.c.eio.sent[:]
        out = []
        buf = []
        for f in frames:
            if f == '<CLOSE>':
                out += [self._pkt_tok(p) for p in refcodec.read_frames(buf)]
                buf = []
                out.append({'ty': 'EIO_CLOSE', 'ns': '/', 'id': -1,
                            'data': []})
            else:
                buf.append(f)
        out += [self._pkt_tok(p) for p in refcodec.read_frames(buf)]
        if self.cfg.get('implicit'):
            # connect() without a namespace list: the namespaces of the
            # registered handlers, a SET - the order of a run of CONNECT
            # packets is not specified; the run is compared in sorted order
            i = 0
            while i < len(out):
                j = i
                while j < len(out) and out[j]['ty'] == 'CONNECT':
                    j += 1
                out[i:j] = sorted(out[i:j], key=lambda p: p['ns'])
                i = j + 1
        for p in out:
            if p['ty'] == 'CONNECT' and p['ns'] not in self.srv_req:
                self.srv_req.append(p['ns'])
                self.srv_req.sort()
            if p['ty'] in ('EVENT', 'BINARY_EVENT') and p['id'] >= 0:
                self.maxid[p['ns']] = max(self.maxid.get(p['ns'], 0), p['id'])
        return out

    def _pkt_tok(self, p):
        ty = p['type']
        if ty == 'BAD':
            return {'ty': 'BAD:' + p['why'], 'ns': '/', 'id': -1, 'data': []}
        d = p['data']
        if ty in (0, 1, 4):
            if d is None:
                data = []
            elif isinstance(d, dict):
                data = ['%s=%s' % (k, d[k]) for k in sorted(d)]
            else:
                data = ['?' + repr(d)[:40]]
        elif not isinstance(d, list):
            data = ['?' + repr(d)[:40]]
        elif ty in (2, 5):
            data = [d[0] if isinstance(d[0], str) else '?ev'] + toks(d[1:])
        else:
            data = toks(d)
        return {'ty': PKT_NAMES[ty], 'ns': p['ns'],
                'id': -1 if p['id'] is None else p['id'], 'data': data}

    def project(self):
        c = self.c
        cb = {}
        # (the ack-id counters live in their own table: a counter that
        # survives its callbacks is state the client carries into the next
        # connection)
        cbs_all = dict(c.callbacks)
        counters = getattr(c, 'ack_counters', {})
        for ns in counters:
            cbs_all.setdefault(ns, {})
        for ns, d in cbs_all.items():
            out = {str(k): getattr(v, 'tag', 'call') for k, v in d.items()
                   if callable(v)}
            hi = max([self.maxid.get(ns, 0)] +
                     [k for k, v in d.items()
                      if callable(v) and isinstance(k, int)])
            nxt = hi + 1
            r = repr(counters.get(ns))
            if r.startswith('count(') and r[6:-1].isdigit():
                nxt = int(r[6:-1])      # the value the counter yields next
            cb[ns] = {'next': nxt, 'out': out}
        p = c._binary_packet
        binbuf = {}
        if p:
            binbuf = {'p': {
                'ty': PKT_NAMES[p.packet_type], 'ns': p.namespace or '/',
                'id': -1 if p.id is None else p.id,
                'ev': p.data[0] if p.packet_type == 5 and isinstance(
                    p.data, list) and p.data and isinstance(
                        p.data[0], str) else '',
                'owed': p.attachment_count, 'atts': toks(p.attachments)}}
        return {
            'eio': c.eio.state,
            'connected': bool(c.connected),
            'namespaces': [[ns, str(sid)] for ns, sid in c.namespaces.items()],
            'reqNs': (sorted if self.cfg.get('implicit') else list)(
                c.connection_namespaces or []),
            'cb': cb, 'binbuf': binbuf,
            'hasSid': c.sid is not None,
            'nextSid': self.next_sid,
            'srvReq': list(self.srv_req),
            'srvAcc': list(self.srv_acc), 'srvAns': list(self.srv_ans),
            'task': bool(c._reconnect_task),
        }
