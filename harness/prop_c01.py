"""C01 - packet codec (spec/Packet.tla, spec/PacketCases.tla)."""
import json
import os
import random

from socketio import packet as sio_packet

from . import common, refcodec, tlc

NONE = ['<none>']


def chars(s):
    return list(s)


def tree(v):
    """Python value -> the specification's tree encoding."""
    if v is None:
        return {'k': 'null'}
    if isinstance(v, bool):
        return {'k': 'bool', 'v': v}
    if isinstance(v, (int, float)):
        return {'k': 'num', 'text': chars(json.dumps(v))}
    if isinstance(v, str):
        return {'k': 'str', 's': chars(v), 'text': chars(json.dumps(v))}
    if isinstance(v, (bytes, bytearray)):
        return {'k': 'bytes', 'b': btok(bytes(v))}
    if isinstance(v, (list, tuple)):
        return {'k': 'list', 'v': [tree(x) for x in v]}
    if isinstance(v, dict):
        return {'k': 'dict', 'v': [[tree(k), tree(x)] for k, x in v.items()]}
    return {'k': '?' + type(v).__name__}


NAMED = {'b1': b'\x01\x02', 'b2': b'\xff\x00\xfe'}   # the Universe's byte strings


def btok(b):
    for n, v in NAMED.items():
        if v == b:
            return n
    return 'x' + b.hex()


def untree(t):
    k = t['k']
    if k == 'null':
        return None
    if k == 'bool':
        return t['v']
    if k == 'num':
        return json.loads(''.join(t['text']))
    if k == 'str':
        return ''.join(t['s'])
    if k == 'bytes':
        b = t['b']
        if b[0] == 'x':
            return bytes.fromhex(b[1:])
        return NAMED[b]
    if k == 'list':
        return [untree(x) for x in t['v']]
    if k == 'dict':
        return {untree(kv[0]): untree(kv[1]) for kv in t['v']}
    raise ValueError(k)


def pkt_of(p):
    """Specification packet record -> constructor arguments."""
    ns = None if p['ns'] == NONE else ''.join(p['ns'])
    pid = None if p['id'] == NONE else int(''.join(p['id']))
    data = None if p['data'].get('k') == 'absent' else untree(p['data'])
    return p['ty'], ns, pid, data


def enc_case(p):
    ty, ns, pid, data = pkt_of(p)
    c = {'kind': 'enc', 'p': p, 'exc': '', 'text': [], 'atts': [],
         'text2': [], 'atts2': [], 'intact': True}
    try:
        # a binary packet is built the way the library builds it: as an
        # EVENT / ACK whose payload holds byte strings (the constructor
        # promotes it; handing it BINARY_EVENT directly is an API misuse it
        # answers with ValueError - recorded in DESIGN.md, not alarmed)
        # (a binary packet WITHOUT byte strings can only be built with its
        # type given: zero attachments)
        pkt = sio_packet.Packet(
            ty - 3 if ty in (5, 6) and refcodec.has_bytes(data) else ty,
            data=data, namespace=ns, id=pid)
        e = pkt.encode()
        if not isinstance(e, list):
            e = [e]
        c['text'] = chars(e[0])
        c['atts'] = [btok(bytes(a)) for a in e[1:]]
        # encoding is a function of the packet: doing it again gives the
        # same frames, and the application's payload object is left as it was
        e2 = pkt.encode()
        if not isinstance(e2, list):
            e2 = [e2]
        c['text2'] = chars(e2[0])
        c['atts2'] = [btok(bytes(a)) for a in e2[1:]]
        c['intact'] = p['data'].get('k') == 'absent' or \
            tree(data) == p['data']
    except Exception as ex:
        c['exc'] = type(ex).__name__
    return c


def dec_case(p):
    ty, ns, pid, data = pkt_of(p)
    frames = refcodec.ref_encode(ty, ns, pid, data)
    c = {'kind': 'dec', 'p': p, 'exc': '', 'ref_text': chars(frames[0]),
         'ref_atts': [btok(a) for a in frames[1:]], 'ty': -1, 'ns': NONE,
         'id': NONE, 'data': {'k': 'absent'}, 'flags': [], 'count': -1}
    try:
        pkt = sio_packet.Packet(encoded_packet=frames[0])
        c['count'] = pkt.attachment_count
        for a in frames[1:]:
            c['flags'].append(bool(pkt.add_attachment(a)))
        c['ty'] = pkt.packet_type
        c['ns'] = NONE if pkt.namespace is None else chars(pkt.namespace)
        c['id'] = NONE if pkt.id is None else chars(str(pkt.id))
        c['data'] = {'k': 'absent'} if pkt.data is None and \
            p['data'].get('k') == 'absent' else tree(pkt.data)
    except Exception as ex:
        c['exc'] = type(ex).__name__
    return c


def scan_case(f):
    c = {'kind': 'scan', 'f': chars(f), 'exc': '', 'ty': '', 'count': [],
         'ns': NONE, 'id': NONE}
    try:
        pkt = sio_packet.Packet(encoded_packet=f)
        c['ty'] = str(pkt.packet_type)
        # how many digits the count had is not observable; the VALUE is
        c['count'] = [] if pkt.attachment_count == 0 and not _has_count(f) \
            else chars(str(pkt.attachment_count))
        c['ns'] = NONE if pkt.namespace is None else chars(pkt.namespace)
        c['id'] = NONE if pkt.id is None else chars(str(pkt.id))
    except Exception as ex:
        c['exc'] = type(ex).__name__
    return c


def _has_count(f):
    ep = f[1:]
    d = ep.find('-')
    return d > 0 and ep[:d].isdigit() and ep[:d].isascii()


# ------------------------------------------------------------- generators
ALNUM = 'abcXYZ019'
HOSTILE = '-,/?[]{}":_ \\'
WILD = ['é', '中', '\U0001f600', '\x00', '\x1f', '\n', ' ',
        '퟿', '￿']


def rstr(rng, n=6, wild=True):
    pool = ALNUM + HOSTILE * 2
    s = ''.join(rng.choice(pool) for _ in range(rng.randrange(0, n)))
    if wild and rng.random() < 0.3:
        i = rng.randrange(0, len(s) + 1)
        s = s[:i] + rng.choice(WILD) + s[i:]
    return s


def rvalue(rng, depth):
    r = rng.random()
    if depth <= 0 or r < 0.35:
        k = rng.randrange(9)
        if k == 0:
            return None
        if k == 1:
            return rng.choice([True, False])
        if k == 2:
            return rng.choice([0, -1, 7, 2 ** 31, -2 ** 63, 2 ** 63 - 1,
                               10 ** 30])
        if k == 3:
            return rng.choice([0.0, -0.5, 1e-7, 1.5e300, 3.14])
        if k in (4, 5):
            return rstr(rng)
        return bytes(rng.randrange(256) for _ in range(rng.randrange(0, 4)))
    if r < 0.7:
        return [rvalue(rng, depth - 1) for _ in range(rng.randrange(0, 4))]
    d = {}
    for _ in range(rng.randrange(0, 4)):
        k = rstr(rng, 5)
        if k == '_placeholder':
            continue
        d[k] = rvalue(rng, depth - 1)
    return d


def rns(rng):
    r = rng.random()
    if r < 0.15:
        return None
    if r < 0.25:
        return '/'
    s = '/' + rstr(rng, 8).replace(',', '')
    return s


def rid(rng):
    r = rng.random()
    if r < 0.3:
        return None
    if r < 0.5:
        return rng.choice([0, 1, 9, 10, 123])
    if r < 0.8:
        return rng.randrange(10 ** rng.randrange(1, 30))
    return 10 ** 100 - 1 - rng.randrange(1000)


def rpacket(rng):
    ty = rng.randrange(7)
    ns, pid = rns(rng), rid(rng)
    if ty in (2, 5):
        ev = rstr(rng, 8, wild=False) or 'e'
        data = [ev] + [rvalue(rng, rng.randrange(0, 4))
                       for _ in range(rng.randrange(0, 4))]
    elif ty in (3, 6):
        data = [rvalue(rng, rng.randrange(0, 4))
                for _ in range(rng.randrange(0, 4))]
        if pid is None:
            pid = rng.randrange(100)
    else:
        pid = None
        data = rng.choice([None, {'sid': rstr(rng, 8)}, rstr(rng, 8) or 'm',
                           {'message': rstr(rng), 'data': [1, rstr(rng)]},
                           {'k': b'\x00'}])
    if ty in (5, 6) and not refcodec.has_bytes(data) and rng.random() < .7:
        data.append(b'\x07' * rng.randrange(0, 3))
    return {'ty': ty, 'ns': NONE if ns is None else chars(ns),
            'id': NONE if pid is None else chars(str(pid)),
            'data': {'k': 'absent'} if data is None else tree(data)}


def mutate_frame(rng, f):
    ops = rng.randrange(6)
    i = rng.randrange(0, len(f) + 1)
    pool = '0123456789-,/?[]"'
    if ops == 0 and f:
        return f[:i] + f[i + 1:]
    if ops == 1:
        return f[:i] + rng.choice(pool) + f[i:]
    if ops == 2:
        return f[:i] + ''.join(rng.choice('0123456789')
                               for _ in range(rng.randrange(1, 120))) + f[i:]
    if ops == 3 and f:
        return f[:i] + f[i:i + 3] + f[i:]
    if ops == 4:
        return f[:1] + rng.choice(['-', '1-', '12345678901-', '/', '/a?x,',
                                   '9' * 101]) + f[1:]
    return f[:i]


def well_formed(p):
    ty, ns, pid, data = pkt_of(p)
    if refcodec.has_bytes(data) and ty not in (2, 3, 5, 6):
        return False
    if ty in (5, 6) and data is None:
        return False
    return True


def run(pid, tier):
    v = common.Verdict(pid, tier)
    wd = os.path.join(common.WORK, pid)
    os.makedirs(wd, exist_ok=True)
    # ---- G1 + dump of the universe
    uf = os.path.join(wd, 'universe.json')
    cfg = ('INIT Init\nNEXT Next\nINVARIANT RoundTripHeader\n'
           'INVARIANT RoundTripAttachments\n'
           'INVARIANT BytesOnlyInEventsAndAcks\nINVARIANT Dump\n')
    r1 = tlc.run_tlc(os.path.join(wd, 'g1'), 'PacketCases', cfg,
                     env={'OUT_FILE': uf, 'CASES_FILE': '/dev/null'},
                     workers=1)
    if r1.error:
        v.error('TLC (Packet.tla): ' + r1.error)
        return v.finish()
    if not r1.ok:
        v.violation('Packet.tla: %s fails on the specification\'s universe'
                    % r1.violation, {'tlc': r1.out[-3000:]})
    universe = json.load(open(uf))
    v.log('  G1 Packet.tla: round trip / attachments / promotion over %d '
          'packets: %s' % (len(universe), 'ok' if r1.ok else r1.violation))
    # ---- cases on the real codec
    rng = random.Random(common.seed())
    n_rand = 1500 if tier == 'quick' else 20000
    extra = [rpacket(rng) for _ in range(n_rand)]
    cases = []
    for p in universe + extra:
        cases.append(enc_case(p))
        if well_formed(p):
            cases.append(dec_case(p))
    frames = []
    for p in (universe + extra)[::3]:
        if well_formed(p):
            ty, ns, pid_, data = pkt_of(p)
            f = refcodec.ref_encode(ty, ns, pid_, data)[0]
            if f.isascii():
                frames.append(f)
                for _ in range(2):
                    g = mutate_frame(rng, f)
                    if g and g.isascii():
                        frames.append(g)
    frames += ['2', '5', '51-', '5-', '2-', '21-', '2/', '2/a', '2/a,',
               '2/a?b', '2/a?b,1', '2?', '212345678901-[]', '51234567890-[]',
               '2' + '1' * 100, '2' + '1' * 101, '2/x,' + '1' * 100 + '[]',
               '3/x,' + '1' * 101 + '[]', '9', 'x', '2-1-', '5' + '0' * 11 + '-']
    for f in frames:
        cases.append(scan_case(f))
    cf_ = os.path.join(wd, 'cases.json')
    with open(cf_, 'w') as f:
        json.dump(cases, f)
    cfg2 = 'INIT Init\nNEXT Next\nINVARIANT AllCasesOK\nINVARIANT Covered\n'
    r2 = tlc.run_tlc(os.path.join(wd, 'g2'), 'MCP', cfg2,
                     env={'CASES_FILE': cf_, 'OUT_FILE': '/dev/null'},
                     modules={'MCP': MCP}, workers=1, heap='8g')
    v.log('  G2 %d cases on the real codec (%d encode, %d decode, %d header '
          'readings): %s' % (len(cases),
                             sum(c['kind'] == 'enc' for c in cases),
                             sum(c['kind'] == 'dec' for c in cases),
                             sum(c['kind'] == 'scan' for c in cases),
                             'ok' if r2.ok else r2.violation or r2.error))
    if r2.error:
        v.error('TLC: ' + r2.error)
    elif not r2.ok:
        import re
        rej = [p for p in r2.prints if 'CASE_REJECTED' in p]
        m = re.search(r'"CASE_REJECTED", (\d+)', rej[0]) if rej else None
        c = cases[int(m.group(1)) - 1] if m else None
        v.violation('codec case rejected: ' + (
            rej[0][:1500] if rej else str(r2.violation)),
            {'case': c, 'packet': list(pkt_of(c['p'])) if c and 'p' in c
             else None})
    nontriv = {json.dumps(c.get('p', c.get('f')), sort_keys=True)
               for c in cases
               if c['kind'] == 'scan' or c['p']['ns'] != NONE or
               c['p']['id'] != NONE}
    v.cov.update({
        'exhaustive': False,
        'exhaustive_note': 'the TLC universe is enumerated completely (G1 '
                           'and every packet of it in G2); the random '
                           'packets and mutated frames are seeded samples',
        'states': len(universe), 'transitions': len(cases),
        'traces_validated_against_impl': len(cases) if r2.ok else 0,
        'samples': [cases[11], cases[len(cases) // 2], cases[-3]],
        'evaluations': len(cases), 'distinct_nontrivial': len(nontriv),
        'rule': 'the specification\'s universe (TLC dump) + seeded random '
                'packets (unicode incl. non-BMP / control characters, '
                'floats, 64-bit and 100-digit numbers, nested bytes) each '
                'encoded by the real codec and decoded from the reference '
                'codec\'s frame, + mutated ASCII frames for the header '
                'reading; non-trivial = has a namespace or an id, or is a '
                'mutated frame; distinct by packet / frame'})
    v.assumptions = ['JSON scalar text (escapes, float repr) is the json '
                     'module\'s: a scalar travels with its text', 'TLC']
    return v.finish()


MCP = '''---- MODULE MCP ----
EXTENDS PacketCases
====
'''
