"""Payload tokens: the spec talks about opaque value tokens, the adapters map
them to concrete Python values and map observed values back by *strict*
(type-aware) equality.  An observed value that is not a known token is
rendered as "?<repr>", which never equals a spec token, so the edge that
produced it is rejected by the validator."""

# token -> concrete value (several shapes on purpose: scalar, number, falsy,
# list, dict, bytes, dict-with-bytes)
TOKENS = {
    'v1': 'v1',
    'v2': 'v2',
    'v3': 'v3',
    'n1': 17,
    'z0': 0,
    'f1': False,
    'l1': ['a', 2],
    'd1': {'k': 'v1'},
    'b1': b'\x01\x02',
    'b2': b'\xff',
    'db1': {'k': b'\x01\x02'},
    # byte strings two levels down (inside a dict inside a dict / a list)
    'ddb1': {'meta': {'blob': b'\x01\x02'}, 'items': [b'\xff']},
    'None': None,
    # falsy-but-meaningful values and a string full of header metacharacters
    'es': '',
    'el': [],
    'ed': {},
    'h1': '3f2c-11aa,/b?c"d\\e-9',
    # a TEXT frame (a well-formed EVENT) that arrives while attachments are
    # owed: it is taken for the attachment
    'tx1': '2["e_v","v1"]',
}

BINARY_TOKENS = {'b1', 'b2', 'db1', 'ddb1'}


def strict_eq(a, b):
    """Deep equality that distinguishes bool/int/float, bytes/str,
    list/tuple."""
    if type(a) is not type(b):
        return False
    if isinstance(a, (list, tuple)):
        return len(a) == len(b) and all(strict_eq(x, y) for x, y in zip(a, b))
    if isinstance(a, dict):
        return a.keys() == b.keys() and all(strict_eq(a[k], b[k]) for k in a)
    return a == b


def val(tok):
    v = TOKENS[tok]
    # hand out a fresh copy of containers so that the library cannot alias
    if isinstance(v, list):
        return list(v)
    if isinstance(v, dict):
        return dict(v)
    return v


def tok(value, extra=None):
    """Concrete value -> token ("?repr" if unknown)."""
    if extra:
        for t, v in extra.items():
            if strict_eq(v, value):
                return t
    for t, v in TOKENS.items():
        if strict_eq(v, value):
            return t
    return '?' + repr(value)[:60]


def toks(values, extra=None):
    return [tok(v, extra) for v in values]
