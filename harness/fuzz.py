"""C12, random tier: frames an offender may send.  Grammar-based mutations of
valid Socket.IO packets (field deletion / duplication, digit runs, unicode
digits, misplaced "-" "," "/" "?", truncated or deeply nested JSON, non-list
payloads, non-string event names, placeholder objects with bad indices) and
unstructured random strings / bytes; for a server using the msgpack
serializer, mutated msgpack maps.  `frame(seed, env)` is a function of its
arguments only (env: namespaces, event names, the real session ids and
outstanding ack ids of the bystanders - things a hostile client may know or
guess)."""
import json
import random

UNICODE_DIGITS = ['١', '२', '３', '²', '①']
PUNCT = ['-', ',', '/', '?', '[', ']', '{', '}', '"', ':', '\\', ' ']


def _valid_text(rng, env):
    """A well-formed packet as text (possibly with owed attachments)."""
    ptype = rng.choice([0, 0, 1, 2, 2, 2, 2, 2, 2, 3, 3, 3, 4, 5, 6])
    # (mostly a namespace the sender is connected to: the frame gets further)
    ns = rng.choice(env['nss'] + 3 * env.get('my_nss', []))
    idn = rng.choice([None, None, 0, 1, 2, 7] + env['ack_ids'])
    ev = rng.choice(env['events'])
    args = [rng.choice(['v1', 1, None, True, 0.5, {'a': 1}, [1, [2]],
                        rng.choice(env['sids'] or ['x'])])
            for _ in range(rng.randrange(3))]
    n = 0
    if ptype in (5, 6):
        n = rng.choice([1, 1, 2, 3])   # ("50-" is in the fixed catalogue)
        args += [{'_placeholder': True, 'num': rng.choice(
            [0, 1, n - 1, n, -1, 10 ** 9, 'x', None])}
            for _ in range(rng.randrange(3))]
    if ptype == 0:
        data = rng.choice([None, {'b': 'ok'}, {'b': 'false'}, 'v1', [1]])
    elif ptype == 1:
        data = None
    elif ptype in (2, 5):
        data = [ev] + args
    elif ptype in (3, 6):
        data = args
    else:
        data = {'message': 'x'}
    s = str(ptype)
    if ptype in (5, 6):
        s += '%d-' % n
    if ns != '/':
        s += ns + ','
    if idn is not None:
        s += str(idn)
    if data is not None:
        s += json.dumps(data, separators=(',', ':'))
    return s


def _mutate_text(rng, s, env):
    k = rng.randrange(14)
    if k in (11, 12) and rng.random() < .7:
        # (headers that leave the sender stuck in reassembly for good are
        # kept rare: they end the interesting part of a history)
        k = rng.randrange(11)
    pos = rng.randrange(len(s) + 1)
    if k == 0 and s:                             # delete a stretch
        j = min(len(s), pos + rng.randrange(1, 4))
        return s[:pos] + s[j:]
    if k == 1 and s:                             # duplicate a stretch
        j = min(len(s), pos + rng.randrange(1, 6))
        return s[:j] + s[pos:j] + s[j:]
    if k == 2:                                   # a digit run
        return s[:pos] + str(rng.randrange(10)) * rng.choice(
            [1, 5, 20, 101, 400]) + s[pos:]
    if k == 3:                                   # unicode digits
        return s[:pos] + rng.choice(UNICODE_DIGITS) * rng.randrange(1, 4) + \
            s[pos:]
    if k == 4:                                   # misplaced punctuation
        return s[:pos] + rng.choice(PUNCT) + s[pos:]
    if k == 5:                                   # truncation
        return s[:pos]
    if k == 6:                                   # deep nesting
        d = rng.choice([10, 200, 3000])
        return s[:1] + '[' * d + ']' * d
    if k == 7:                                   # non-list payload
        return s[:1] + rng.choice(['{"a":1}', '"abc"', '5', 'null', 'true',
                                   '[]', '{}', '[[]]', '[{}]', '[null]'])
    if k == 8:                                   # non-string event name
        return s[:1] + json.dumps([rng.choice([5, None, True, [], {}, 1.5]),
                                   'v1'])
    if k == 9:                                   # another namespace / sid
        return s[:1] + rng.choice(env['nss'] + ['/' + x for x in
                                                env['sids']] + ['*', '/*']) \
            + ',' + s[1:]
    if k == 10:                                  # somebody else's ack id
        return s[:1] + str(rng.choice(env['ack_ids'] + [1, 2])) + \
            json.dumps([rng.choice(env['sids'] or ['x'])])
    if k == 11:                                  # type digit swapped
        return str(rng.randrange(10)) + s[1:]
    if k == 12:                                  # absurd attachment count
        return rng.choice('56') + str(rng.choice([0, 11, 10 ** 9, 10 ** 30])) \
            + '-' + s[1:]
    return s[:pos] + chr(rng.choice([0, 7, 0x7f, 0xff, 0x2028, 0x1f600])) + \
        s[pos:]


def _random_text(rng):
    n = rng.choice([0, 1, 2, 5, 20, 200])
    return ''.join(chr(rng.choice([rng.randrange(32, 127),
                                   rng.randrange(0x110000 - 0x800) + 0x800
                                   if rng.random() < .1 else
                                   rng.randrange(48, 58)]))
                   for _ in range(n)).encode('utf-8', 'ignore').decode(
                       'utf-8', 'ignore')


def _random_bytes(rng):
    return bytes(rng.randrange(256) for _ in range(rng.choice(
        [0, 1, 2, 8, 64, 1000])))


def _msgpack_frame(rng, env):
    import msgpack
    d = {'type': rng.choice([0, 1, 2, 3, 4, 5, 6, 9, '2', None, -1]),
         'nsp': rng.choice(env['nss'] + 3 * env.get('my_nss', []) +
                           ['*', None, 5]),
         'data': rng.choice([[rng.choice(env['events']), 'v1'], [], None,
                             {'a': 1}, 'x', [5], [None, 1],
                             [rng.choice(env['events']), b'\x00'],
                             [rng.choice(env['sids'] or ['x'])]])}
    if rng.random() < .6:
        d['id'] = rng.choice([0, 1, 2, 7, 10 ** 12, -1, 'x', None] +
                             env['ack_ids'])
    for k in list(d):
        if rng.random() < .15:
            del d[k]
    if rng.random() < .2:
        d[rng.choice(['extra', 'attachments', 'sid'])] = rng.choice(
            [1, [1, 2], {'a': b'\x00'}, 10 ** 9])
    b = msgpack.dumps(d)
    k = rng.randrange(6)
    if k == 0 and b:
        pos = rng.randrange(len(b))
        return b[:pos]
    if k == 1 and b:
        pos = rng.randrange(len(b))
        return b[:pos] + bytes([rng.randrange(256)]) + b[pos + 1:]
    if k == 2:
        return b'\x91' * rng.choice([10, 3000]) + b'\xc0'
    return b


def frame(seed, env):
    rng = random.Random(seed)
    if env.get('serializer') == 'msgpack':
        k = rng.randrange(10)
        if k == 0:
            return _random_bytes(rng)
        if k == 1:
            return _valid_text(rng, env)        # text to a msgpack server
        return _msgpack_frame(rng, env)
    if env.get('stuck') and rng.random() < .7:
        # attachments are owed: every text frame would be refused until
        # they have arrived
        return _random_bytes(rng) if rng.random() < .5 else b'\x00\x01'
    k = rng.randrange(20)
    if k == 0:
        return _random_text(rng)
    if k == 1:
        return _random_bytes(rng)
    if k == 2:                                   # a stray binary frame that
        return _valid_text(rng, env).encode()    # spells a packet
    s = _valid_text(rng, env)
    for _ in range(rng.choice([0, 0, 0, 1, 1, 1, 2, 3])):
        s = _mutate_text(rng, s, env)
    return s
