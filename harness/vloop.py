"""A virtual-time asyncio event loop: when nothing is ready, time jumps to
the next timer instead of sleeping, so asyncio.wait_for / sleep timeouts are
instantaneous and deterministic."""
import asyncio


class Deadlock(Exception):
    pass


class VirtualLoop(asyncio.SelectorEventLoop):
    def __init__(self):
        super().__init__()
        self._vt = 0.0
        orig = self._selector.select

        def select(timeout=None):
            if timeout is None:
                # nothing scheduled, nothing ready: every task is blocked
                raise Deadlock('all tasks are blocked and no timer is set')
            if timeout > 0:
                self._vt += timeout
            return orig(0)
        self._selector.select = select

    def time(self):
        return self._vt


def new_loop():
    loop = VirtualLoop()
    asyncio.set_event_loop(loop)
    return loop
