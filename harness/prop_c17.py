"""C17 - namespace helper forwarding (spec/NsForward.tla)."""
import asyncio
import inspect
import itertools
import json
import os
import random

import socketio

from . import common, tlc

SERVER_HELPERS = ['emit', 'send', 'call', 'enter_room', 'leave_room',
                  'close_room', 'rooms', 'get_session', 'save_session',
                  'session', 'disconnect']
CLIENT_HELPERS = ['emit', 'send', 'call', 'disconnect']

CLASSES = [
    ('Namespace', socketio.Namespace, socketio.Server, SERVER_HELPERS,
     '_set_server', False),
    ('AsyncNamespace', socketio.AsyncNamespace, socketio.AsyncServer,
     SERVER_HELPERS, '_set_server', True),
    ('ClientNamespace', socketio.ClientNamespace, socketio.Client,
     CLIENT_HELPERS, '_set_client', False),
    ('AsyncClientNamespace', socketio.AsyncClientNamespace,
     socketio.AsyncClient, CLIENT_HELPERS, '_set_client', True),
]

FALSY = [0, False, [], '', 0.0, ()]


def params(fn):
    sig = inspect.signature(fn)
    req, opt = [], []
    for n, p in list(sig.parameters.items())[1:]:      # drop self
        if p.kind in (p.VAR_POSITIONAL, p.VAR_KEYWORD):
            continue
        (req if p.default is p.empty else opt).append(n)
    return req, opt


class Result:
    pass


# what the target returns: the helper passes it back unchanged, whatever
# it is (identity is compared)
RESULT_KINDS = ['obj', 'list1', 'tuple1', 'list0', 'none', 'dict', 'list2',
                'nested1']


def make_result(kind):
    return {'obj': Result(), 'list1': ['hit'], 'tuple1': ('hit',),
            'list0': [], 'none': None, 'dict': {'a': 1},
            'list2': ['a', 'b'], 'nested1': [['hit']]}[kind]


def follow_up(ns, m, log, registered, loop):
    """The namespace object is used again, namespace omitted: the earlier
    call (whatever it was given) must not have changed what "omitted"
    means."""
    fm = 'send' if m == 'emit' else 'emit'
    del log[:]
    try:
        r = getattr(ns, fm)('follow')
        if inspect.isawaitable(r):
            loop.run_until_complete(r)
    except Exception as e:
        return '?EXC:' + type(e).__name__
    calls = [c for c in log if c[0] == fm]
    if len(calls) != 1:
        return '?calls:%d' % len(calls)
    v = calls[0][1].get('namespace')
    return 'REGISTERED' if v == registered else '?' + repr(v)[:30]


def make_stub(target_cls, helpers, is_async, log, result):
    """An object with the target's real signatures that records the call
    bound to parameter names."""
    body = {}
    for m in helpers:
        real = getattr(target_cls, m)
        sig = inspect.signature(real)

        def rec(self_, *a, _m=m, _sig=sig, **k):
            try:
                ba = _sig.bind(self_, *a, **k)
                args = dict(ba.arguments)
                args.pop('self', None)
                log.append((_m, args))
            except TypeError as e:
                log.append((_m, {'!bind-error': str(e)}))
            return result
        if is_async and inspect.iscoroutinefunction(real):
            async def arec(self_, *a, _rec=rec, **k):
                return _rec(self_, *a, **k)
            body[m] = arec
        else:
            body[m] = rec
    return type('Stub', (), body)()


def build_cases(seed, tier):
    rng = random.Random(seed)
    loop = asyncio.new_event_loop()
    cases = []
    for cname, ns_cls, target_cls, helpers, setter, is_async in CLASSES:
        for m in helpers:
            hreq, hopt = params(getattr(ns_cls, m))
            treq, topt = params(getattr(target_cls, m))
            for G in itertools.chain.from_iterable(
                    itertools.combinations(hopt, k)
                    for k in range(len(hopt) + 1)):
                for mode in ('positional', 'keyword'):
                    for falsy in (False, True):
                        registered = '/reg%d' % rng.randrange(1000)
                        log = []
                        rkind = RESULT_KINDS[len(cases) % len(RESULT_KINDS)]
                        result = make_result(rkind)
                        stub = make_stub(target_cls, helpers, is_async, log,
                                         result)
                        ns = ns_cls(registered)
                        getattr(ns, setter)(stub)
                        values = {}
                        toks = {}
                        for n in hreq + list(G):
                            if n == 'namespace':
                                v = '/explicit%d' % rng.randrange(1000)
                            elif falsy and n not in ('sid', 'room', 'event'):
                                v = rng.choice(FALSY)
                            else:
                                v = 'val_%s_%d' % (n, rng.randrange(10 ** 6))
                            values[n] = v
                            toks[n] = 'V:' + n
                        if mode == 'positional':
                            # required positionally, optionals by keyword
                            a = [values[n] for n in hreq]
                            k = {n: values[n] for n in G}
                        else:
                            a = []
                            k = dict(values)
                        try:
                            r = getattr(ns, m)(*a, **k)
                            if inspect.isawaitable(r):
                                r = loop.run_until_complete(r)
                        except Exception as e:
                            r = 'EXC:' + type(e).__name__
                        calls = [c for c in log if c[0] == m]
                        observed = {}
                        if calls:
                            for n, v in calls[0][1].items():
                                if n in values and type(v) is type(
                                        values[n]) and v == values[n] and (
                                        v is values[n] or not isinstance(
                                            v, str) or True):
                                    observed[n] = toks[n]
                                elif n == 'namespace' and v == registered:
                                    observed[n] = 'REGISTERED'
                                elif n in values:
                                    observed[n] = '?changed:' + repr(v)[:30]
                                else:
                                    observed[n] = 'default'
                        other = [c for c in log if c[0] != m]
                        attr = 'REGISTERED' if ns.namespace == registered \
                            else '?' + repr(ns.namespace)[:30]
                        follow = follow_up(ns, m, log, registered, loop)
                        cases.append({
                            'cls': cname, 'method': m, 'mode': mode,
                            'result_kind': rkind, 'ns_attr': attr,
                            'follow': follow,
                            'falsy': falsy, 'optional': hopt,
                            'target_params': treq + topt,
                            'given': {n: toks[n] for n in values},
                            'registered': 'REGISTERED',
                            'calls': len(calls) + 100 * len(other),
                            'observed': observed,
                            'result': 'RESULT' if r is result else
                            '?' + repr(r)[:40]})
    cases += positional_cases(rng, loop)
    loop.close()
    return cases


def positional_cases(rng, loop):
    """Optional arguments given POSITIONALLY: `helper(*a)` must have the
    effect of `target(*a)` (the statement: "exactly the effect of the
    same-named method"), so the meaning of position i is the target's i-th
    parameter.  Positions are tested up to the first helper parameter the
    target does not have (ClientNamespace.send's vestigial `room`)."""
    cases = []
    for cname, ns_cls, target_cls, helpers, setter, is_async in CLASSES:
        for m in helpers:
            hreq, hopt = params(getattr(ns_cls, m))
            treq, topt = params(getattr(target_cls, m))
            torder = treq + topt
            usable = []
            for n in hopt:
                if n not in torder:
                    break
                usable.append(n)
            for k in range(1, len(usable) + 1):
                registered = '/reg%d' % rng.randrange(1000)
                log = []
                result = Result()
                stub = make_stub(target_cls, helpers, is_async, log, result)
                ns = ns_cls(registered)
                getattr(ns, setter)(stub)
                horder = hreq + usable[:k]
                if len(horder) > len(torder):
                    break
                vals = ['/explicit%d' % rng.randrange(1000)
                        if torder[i] == 'namespace'
                        else 'val_%d_%d' % (i, rng.randrange(10 ** 6))
                        for i in range(len(horder))]
                toks = ['V:%d' % i for i in range(len(horder))]
                try:
                    r = getattr(ns, m)(*vals)
                    if inspect.isawaitable(r):
                        r = loop.run_until_complete(r)
                except Exception as e:
                    r = 'EXC:' + type(e).__name__
                calls = [c for c in log if c[0] == m]
                observed = {}
                if calls:
                    for n, v in calls[0][1].items():
                        hit = [t for t, x in zip(toks, vals)
                               if type(x) is type(v) and x == v]
                        if hit:
                            observed[n] = hit[0]
                        elif n == 'namespace' and v == registered:
                            observed[n] = 'REGISTERED'
                        else:
                            observed[n] = 'default'
                other = [c for c in log if c[0] != m]
                attr = 'REGISTERED' if ns.namespace == registered \
                    else '?' + repr(ns.namespace)[:30]
                follow = follow_up(ns, m, log, registered, loop)
                cases.append({
                    'cls': cname, 'method': m, 'mode': 'allpositional',
                    'result_kind': 'obj', 'ns_attr': attr, 'follow': follow,
                    'falsy': False, 'optional': hopt,
                    'target_params': torder,
                    # what target(*vals) would bind
                    'given': {torder[i]: toks[i] for i in range(len(vals))},
                    'registered': 'REGISTERED',
                    'calls': len(calls) + 100 * len(other),
                    'observed': observed,
                    'result': 'RESULT' if r is result else
                    '?' + repr(r)[:40]})
    return cases


def run(pid, tier):
    v = common.Verdict(pid, tier)
    wd = os.path.join(common.WORK, pid)
    os.makedirs(wd, exist_ok=True)
    cases = build_cases(common.seed(), tier)
    cf_ = os.path.join(wd, 'cases.json')
    with open(cf_, 'w') as f:
        json.dump(cases, f)
    cfg = 'INIT Init\nNEXT Next\nINVARIANT AllCasesOK\nINVARIANT Covered\n'
    r = tlc.run_tlc(os.path.join(wd, 'g'), 'NsForward', cfg,
                    env={'CASES_FILE': cf_}, workers=1)
    v.log('  %d helper calls on the real namespace classes judged by '
          'NsForward.tla: %s' % (len(cases),
                                 'ok' if r.ok else r.violation or r.error))
    if r.error:
        v.error('TLC: ' + r.error)
    elif not r.ok:
        import re
        rej = [p for p in r.prints if 'CASE_REJECTED' in p]
        idx = int(re.search(r'"CASE_REJECTED", (\d+)', rej[0]).group(1)) \
            if rej else None
        v.violation('helper call rejected: ' + (rej[0] if rej
                                                else str(r.violation)),
                    {'case': cases[idx - 1] if idx else None})
    v.cov.update({
        'states': 1, 'transitions': len(cases),
        'traces_validated_against_impl': len(cases) if r.ok else 0,
        'samples': cases[7:10], 'evaluations': len(cases),
        'distinct_nontrivial': len({(c['cls'], c['method'],
                                     tuple(sorted(c['given'])), c['mode'])
                                    for c in cases if len(c['given']) > 1}),
        'rule': 'all 4 classes x helper methods x all subsets of optional '
                'parameters x {positional, keyword} x {truthy, falsy '
                'values}; signatures read from the working tree; '
                'non-trivial = at least two arguments given'})
    v.assumptions = ['TLC', 'inspect.signature of the working tree']
    return v.finish()
