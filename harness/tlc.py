"""Run TLC and parse what it says.  Exit classes: ok / violation /
machinery error."""
import os
import re
import shutil
import subprocess
import time

JAR = '/opt/veriftools/tla/tla2tools.jar'
CM = '/opt/veriftools/tla/CommunityModules-deps.jar'
SPEC_DIR = os.path.join(os.path.dirname(os.path.dirname(
    os.path.abspath(__file__))), 'spec')


def _prints(out):
    """PrintT values (possibly pretty-printed over several lines): blocks
    that start with << at column 0, up to bracket balance."""
    res = []
    lines = out.splitlines()
    i = 0
    while i < len(lines):
        l = lines[i]
        if l.startswith('<<'):
            buf = l
            bal = l.count('<<') - l.count('>>')
            while bal > 0 and i + 1 < len(lines):
                i += 1
                buf += ' ' + lines[i].strip()
                bal += lines[i].count('<<') - lines[i].count('>>')
            res.append(re.sub(r'\s+', ' ', buf))
        i += 1
    return res


class TlcResult:
    def __init__(self):
        self.ok = False
        self.violation = None      # name of violated invariant / property
        self.error = None          # machinery error text
        self.generated = 0
        self.distinct = 0
        self.depth = 0
        self.prints = []           # PrintT lines
        self.out = ''
        self.wall = 0.0
        self.coverage = {}

    def __repr__(self):
        return 'TlcResult(ok=%s violation=%s error=%s gen=%d distinct=%d)' % (
            self.ok, self.violation, (self.error or '')[:200], self.generated,
            self.distinct)


def run_tlc(workdir, module, cfg_text, env=None, workers=1, extra=None,
            timeout=3600, modules=None, coverage=False, simulate=None,
            deadlock=False, heap='4g'):
    """workdir gets a copy of the spec modules + generated module files
    (modules: name -> text) + the cfg; runs TLC there."""
    os.makedirs(workdir, exist_ok=True)
    for f in os.listdir(SPEC_DIR):
        if f.endswith('.tla'):
            shutil.copy(os.path.join(SPEC_DIR, f), os.path.join(workdir, f))
    for name, text in (modules or {}).items():
        with open(os.path.join(workdir, name + '.tla'), 'w') as f:
            f.write(text)
    with open(os.path.join(workdir, module + '.cfg'), 'w') as f:
        f.write(cfg_text)
    meta = os.path.join(workdir, 'meta_' + module)
    shutil.rmtree(meta, ignore_errors=True)
    cmd = ['java', '-Xmx' + heap, '-XX:+UseParallelGC',
           '-cp', JAR + ':' + CM, 'tlc2.TLC',
           '-workers', str(workers), '-metadir', meta, '-noGenerateSpecTE',
           '-config', module + '.cfg']
    if not deadlock:
        cmd += ['-deadlock']       # -deadlock DISABLES deadlock checking
    if coverage:
        cmd += ['-coverage', '1']
    if simulate:
        cmd += ['-simulate', simulate]
    cmd += list(extra or [])
    cmd += [module]
    e = dict(os.environ)
    e.update(env or {})
    t0 = time.time()
    r = TlcResult()
    try:
        p = subprocess.run(cmd, cwd=workdir, env=e, capture_output=True,
                           text=True, timeout=timeout)
    except subprocess.TimeoutExpired as ex:
        r.error = 'TLC timeout after %ss' % timeout
        r.out = (ex.stdout or b'').decode() if isinstance(
            ex.stdout, bytes) else (ex.stdout or '')
        return r
    r.wall = time.time() - t0
    out = p.stdout + p.stderr
    r.out = out
    shutil.rmtree(meta, ignore_errors=True)
    m = re.search(r'(\d+) states generated, (\d+) distinct states found', out)
    if m:
        r.generated = int(m.group(1))
        r.distinct = int(m.group(2))
    m = re.search(r'depth of the complete state graph search is (\d+)', out)
    if m:
        r.depth = int(m.group(1))
    r.prints = _prints(out)
    m = re.search(r'Invariant (\S+) is violated', out) or \
        re.search(r'The invariant of (\S+) is equal to FALSE', out)
    if m:
        r.violation = m.group(1)
        return r
    m = re.search(r'Action property (\S+) is violated', out) or \
        re.search(r'Temporal properties were violated', out)
    if m:
        r.violation = m.group(1) if m.groups() else 'temporal'
        return r
    if 'Deadlock reached' in out:
        r.violation = 'Deadlock'
        return r
    if 'Model checking completed. No error has been found' in out or \
            (simulate and 'Error' not in out and p.returncode == 0):
        r.ok = True
        return r
    r.error = out[-3000:]
    return r
