"""Shared check plumbing: evidence files, verdict lines, known findings."""
import json
import os
import sys
import time

ROOT = os.path.dirname(os.path.dirname(os.path.abspath(__file__)))
WORK = os.path.join(ROOT, '.work')
REPLAY = os.path.join(ROOT, 'replay')
EVID = os.path.join(ROOT, 'evidence')
if os.environ.get('VERIF_REPO'):
    # evaluation of a seeded defect in a scratch worktree: keep its work
    # files, evidence and replays away from those of /repo itself
    _tag = os.path.basename(os.environ['VERIF_REPO'].rstrip('/'))
    WORK = os.path.join(ROOT, '.work', 'eval', _tag)
    REPLAY = os.path.join(WORK, 'replay')
    EVID = os.path.join(WORK, 'evidence')


def seed():
    try:
        return int(os.environ.get('VERIF_SEED', '0'))
    except ValueError:
        return 0


def known_findings():
    with open(os.path.join(ROOT, 'known_findings.json')) as f:
        return json.load(f)['findings']


def known_for(pid):
    return [k for k in known_findings()
            if k['property'] == pid and k['status'] == 'known']


class Verdict:
    """Collects what a check run found; prints the contract lines."""

    def __init__(self, pid, tier, level='model_checking'):
        self.pid = pid
        self.tier = tier
        self.level = level
        self.t0 = time.time()
        self.violations = []      # (what, replay path)
        self.known = []           # KNOWN-FINDING texts
        self.errors = []          # machinery failures
        self.cov = {'states': 0, 'transitions': 0,
                    'traces_validated_against_impl': 0, 'samples': [],
                    'runs': []}
        self.assumptions = []

    def log(self, *a):
        print(*a, flush=True)

    def violation(self, what, replay_obj):
        os.makedirs(REPLAY, exist_ok=True)
        path = os.path.join(REPLAY, '%s-%d.json' % (
            self.pid, len(self.violations) + 1))
        with open(path, 'w') as f:
            json.dump({'property': self.pid, 'what': what,
                       'replay': replay_obj}, f, indent=1, default=str)
        self.violations.append((what, path))
        print('VIOLATION property=%s replay=%s' % (self.pid, path),
              flush=True)
        print('  ' + what[:2000], flush=True)

    def known_finding(self, text):
        if text not in self.known:
            self.known.append(text)
            print('KNOWN-FINDING: property=%s %s' % (self.pid, text),
                  flush=True)

    def error(self, text):
        self.errors.append(text)
        print('MACHINERY-ERROR: ' + text[:3000], flush=True)

    def add_run(self, **kw):
        self.cov['runs'].append(kw)

    def finish(self):
        os.makedirs(EVID, exist_ok=True)
        cov = self.cov
        if any(str(r.get('config', '')).startswith('walks:')
               for r in cov.get('runs', []) if isinstance(r, dict)):
            cov['exhaustive'] = False
            cov['exhaustive_note'] = (
                'the configurations without the "walks:" prefix were '
                'enumerated completely (every alphabet action from every '
                'reachable abstract state, state count equal to the '
                'specification\'s); the "walks:" runs are seeded random '
                'histories on larger configurations')
        cov.setdefault('exhaustive', True)
        ev = {'property_id': self.pid, 'tier': self.tier, 'seed': seed(),
              'level': self.level, 'coverage': cov,
              'assumptions': self.assumptions,
              'wall_s': round(time.time() - self.t0, 2),
              'violations': len(self.violations),
              'known_findings': self.known,
              'machinery_errors': self.errors}
        with open(os.path.join(EVID, self.pid + '.json'), 'w') as f:
            json.dump(ev, f, indent=1, default=str)
        if self.errors:
            return 2
        return 1 if self.violations else 0


def jsonable(o):
    """A projection is JSON by construction; a broken tree can put anything
    into it (bytes where a namespace should be, ...).  Such values become
    "?<repr>" tokens - no specification value equals them, so the step is
    rejected instead of the machinery crashing."""
    if isinstance(o, dict):
        return {k if isinstance(k, str) else '?' + repr(k)[:40]: jsonable(v)
                for k, v in o.items()}
    if isinstance(o, (list, tuple)):
        return [jsonable(x) for x in o]
    if o is None or isinstance(o, (str, bool, int)):
        return o
    if isinstance(o, float):
        return o if o == o and abs(o) != float('inf') else '?' + repr(o)
    return '?' + repr(o)[:40]
