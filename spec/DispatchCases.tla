--------------------------- MODULE DispatchCases ---------------------------
(***************************************************************************)
(* Binding of Dispatch.tla to the code: the harness built, for every point *)
(* of the lattice and every class (Server, AsyncServer, Client,            *)
(* AsyncClient; sync and coroutine handlers; ordinary and each reserved    *)
(* event), a REAL registry of marker callables, delivered the event as a   *)
(* real frame / through a real connect-disconnect flow, and recorded which *)
(* callable ran with which arguments.  TLC evaluates DocResolve on every   *)
(* recorded case and demands the same target and the same argument list,   *)
(* and that the recorded cases cover the whole lattice for every class.    *)
(***************************************************************************)
EXTENDS Dispatch, Json, IOUtils

Cases == JsonDeserialize(IOEnv.CASES_FILE)

Point(c) == [hNE |-> c.p.hNE, hNS |-> c.p.hNS, hSE |-> c.p.hSE, hSS |-> c.p.hSS,
             \* ("star": an ordinary event that happens to be NAMED "*" - no handler can be
             \*  registered for it by name, the catch-alls are responsible like for any event)
             cN |-> c.p.cN, cS |-> c.p.cS, reserved |-> c.kind \notin {"ordinary", "star"},
             other |-> c.p.other, method |-> c.p.method]

Expected(c) ==
    LET d == DocResolve(Point(c))
    IN  [ran |-> d.target, args |-> IF d.target = "none" THEN <<>> ELSE d.prefix \o c.normal]

Chk(b, msg) == b \/ (PrintT(msg) /\ FALSE)

CaseOK(i) ==
    LET c == Cases[i] e == Expected(c)
    IN  Chk(c.ran = e.ran /\ c.args = e.args,
            \* (c.late: the part of the registry that was added after the event had already been
            \*  dispatched once - resolution is a function of the registry as it is NOW)
            <<"CASE_REJECTED", i, c.side, c.kind, "registered late", c.late, "expected", e, "observed", [ran |-> c.ran, args |-> c.args]>>)

AllCasesOK == \A i \in 1..Len(Cases) : CaseOK(i)

Sides == {Cases[i].side : i \in 1..Len(Cases)}
Covered ==      \* every class saw every lattice point (reserved and ordinary)
    \A s \in Sides : {Point(Cases[i]) : i \in {k \in 1..Len(Cases) : Cases[k].side = s /\ Cases[k].kind # "star"}} = Lattice
=============================================================================
