----------------------------- MODULE NsForward -----------------------------
(***************************************************************************)
(* C17 - helper methods of class-based namespaces.  The rule, stated once: *)
(* calling helper m of a namespace object registered for namespace R with  *)
(* the arguments `given` (a function parameter name -> value token) must   *)
(* call the same-named method of the server / client exactly once with     *)
(*   - every given argument that the target accepts, under the same name,  *)
(*     with the same value,                                                *)
(*   - namespace = the given one, or R when it was not given,              *)
(* and must pass the target's result back unchanged (whatever the result   *)
(* is: objects, one-element lists and tuples, empty lists, None ...), and  *)
(* must leave the object standing for R (the next call that omits the      *)
(* namespace is forwarded with R).  What an omitted      *)
(* optional parameter other than namespace defaults to, and parameters the *)
(* target does not have, are outside the claim.                            *)
(*                                                                         *)
(* The parameter lists are extracted from the working tree at check time   *)
(* (inspect.signature), so a signature change in /repo changes the cases.  *)
(* Cases is the complete lattice: 4 classes x helper methods x all subsets *)
(* of the helper's optional parameters x {positional, keyword} x {truthy,  *)
(* falsy-but-meaningful values}, each executed on the real namespace       *)
(* object bound to a recording stub with the target's real signature.      *)
(***************************************************************************)
EXTENDS Naturals, Sequences, FiniteSets, TLC, Json, IOUtils

Cases == JsonDeserialize(IOEnv.CASES_FILE)

ToSet(q) == {q[i] : i \in 1..Len(q)}
Restrict(f, S) == [x \in DOMAIN f \cap S |-> f[x]]

(* expected explicit part of the target call *)
Expected(c) ==
    LET tp    == ToSet(c.target_params)
        base  == Restrict(c.given, tp \ {"namespace"})
    IN  IF "namespace" \in tp
        THEN [x \in DOMAIN base \cup {"namespace"} |->
                IF x = "namespace"
                THEN (IF "namespace" \in DOMAIN c.given THEN c.given["namespace"] ELSE c.registered)
                ELSE base[x]]
        ELSE base

(* spec-level lemma: nothing the caller gave and the target accepts is lost *)
NothingDropped(c) ==
    \A x \in DOMAIN c.given \cap ToSet(c.target_params) :
        x \in DOMAIN Expected(c) /\ Expected(c)[x] = c.given[x]

Chk(b, msg) == b \/ (PrintT(msg) /\ FALSE)

CaseOK(i) ==
    LET c == Cases[i]
        e == Expected(c)
        o == Restrict(c.observed, DOMAIN c.given \cup {"namespace"})  \* explicit part only
    IN  /\ NothingDropped(c)
        /\ Chk(c.calls = 1, <<"CASE_REJECTED", i, c.cls, c.method, "target calls", c.calls>>)
        /\ Chk(Restrict(o, DOMAIN e) = e /\ DOMAIN e \subseteq DOMAIN c.observed,
               <<"CASE_REJECTED", i, c.cls, c.method, c.mode, "given", c.given, "expected", e, "observed", c.observed>>)
        /\ Chk(c.result = "RESULT", <<"CASE_REJECTED", i, c.cls, c.method, "result", c.result_kind, c.result>>)
        \* the object still stands for its namespace: a later call that omits the
        \* namespace is forwarded with R, whatever this call was given
        /\ Chk(c.ns_attr = "REGISTERED" /\ c.follow = "REGISTERED",
               <<"CASE_REJECTED", i, c.cls, c.method, "given", c.given, "afterwards the object stands for",
                 c.ns_attr, "and a call without namespace goes to", c.follow>>)

AllCasesOK == \A i \in 1..Len(Cases) : CaseOK(i)

(* the recorded cases are the complete lattice *)
Keys == {<<Cases[i].cls, Cases[i].method>> : i \in 1..Len(Cases)}
Covered ==
    \A k \in Keys :
        LET cs == {i \in 1..Len(Cases) : Cases[i].cls = k[1] /\ Cases[i].method = k[2]}
            c0 == Cases[CHOOSE i \in cs : TRUE]
        IN  \A G \in SUBSET ToSet(c0.optional) : \A m \in {"positional", "keyword"} :
              \E i \in cs : Cases[i].mode = m
                  /\ DOMAIN Cases[i].given \cap ToSet(c0.optional) = G

VARIABLE tick
Init == tick = 0
Next == tick' = tick
=============================================================================
