------------------------------- MODULE Packet -------------------------------
(***************************************************************************)
(* The Socket.IO v5 packet codec (packet.py) at character level.           *)
(*                                                                         *)
(* A STRING is a sequence of one-character strings (TLC cannot index a     *)
(* TLA+ string), e.g. <<"/", "a">>.  A payload is a finite TREE:           *)
(*   [k |-> "null"]  [k |-> "bool", v |-> TRUE]                            *)
(*   [k |-> "num", text |-> chars]       the number's JSON text (opaque)   *)
(*   [k |-> "str", s |-> chars, text |-> chars]  value and its JSON text   *)
(*   [k |-> "bytes", b |-> token]        a byte string                     *)
(*   [k |-> "list", v |-> <<tree, ...>>]                                   *)
(*   [k |-> "dict", v |-> << <<key (a str tree), tree>>, ... >>]           *)
(* Text <-> value fidelity of JSON SCALARS is the json module's (the       *)
(* scalar's text travels with it); everything the property attributes to   *)
(* THIS codec - header, placeholders, attachment order, promotion - is     *)
(* specified here.                                                         *)
(*                                                                         *)
(*  RefFrame(p)  the frame the v5 wire format prescribes (written from the *)
(*               protocol document: type digit, "<n>-" iff binary,         *)
(*               "<nsp>," iff non-default namespace, decimal id, compact   *)
(*               JSON with depth-first numbered placeholders)              *)
(*  Scan(f)      the header reading, shaped like Packet.decode (first "-"  *)
(*               search with the all-digits test and the > 10 guard,       *)
(*               namespace up to "," or end, "?" cut, id run of <= 100     *)
(*               digits, the rest is JSON)                                 *)
(* TLC checks Scan(RefFrame(p)) = header(p) and Reconstruct(Deconstruct)   *)
(* = identity on the whole universe below, and (PacketCases.tla) judges    *)
(* every case recorded from the real codec.                                *)
(***************************************************************************)
EXTENDS Naturals, Sequences, FiniteSets, TLC

Digits == {"0", "1", "2", "3", "4", "5", "6", "7", "8", "9"}
IsDigitSeq(q) == q # <<>> /\ \A i \in 1..Len(q) : q[i] \in Digits
Find(q, c) == IF \E i \in 1..Len(q) : q[i] = c
              THEN CHOOSE i \in 1..Len(q) : q[i] = c /\ \A j \in 1..(i - 1) : q[j] # c
              ELSE 0
From(q, i) == SubSeq(q, i, Len(q))
NONE == <<"<none>">>      \* "absent" for namespaces and ids (not a digit run, does not start with "/")

DigitOf(n) == CASE n = 0 -> "0" [] n = 1 -> "1" [] n = 2 -> "2" [] n = 3 -> "3" [] n = 4 -> "4"
                [] n = 5 -> "5" [] n = 6 -> "6" [] n = 7 -> "7" [] n = 8 -> "8" [] n = 9 -> "9"
RECURSIVE NatChars(_)
NatChars(n) == IF n < 10 THEN <<DigitOf(n)>> ELSE NatChars(n \div 10) \o <<DigitOf(n % 10)>>

----------------------------------------------------------------------------
(* trees                                                                   *)
RECURSIVE HasBytes(_)
HasBytes(t) ==
    CASE t.k = "bytes" -> TRUE
      [] t.k = "list"  -> \E i \in 1..Len(t.v) : HasBytes(t.v[i])
      [] t.k = "dict"  -> \E i \in 1..Len(t.v) : HasBytes(t.v[i][2])
      [] OTHER -> FALSE

(* depth-first, left-to-right extraction of the byte strings: the tree     *)
(* with placeholders and the attachment list                               *)
RECURSIVE Dec(_, _), DecList(_, _, _), DecDict(_, _, _)
Dec(t, atts) ==
    CASE t.k = "bytes" -> [t |-> [k |-> "ph", num |-> Len(atts)], atts |-> Append(atts, t.b)]
      [] t.k = "list"  -> LET r == DecList(t.v, 1, [v |-> <<>>, atts |-> atts])
                          IN  [t |-> [k |-> "list", v |-> r.v], atts |-> r.atts]
      [] t.k = "dict"  -> LET r == DecDict(t.v, 1, [v |-> <<>>, atts |-> atts])
                          IN  [t |-> [k |-> "dict", v |-> r.v], atts |-> r.atts]
      [] OTHER -> [t |-> t, atts |-> atts]
DecList(q, i, acc) ==
    IF i > Len(q) THEN acc
    ELSE LET r == Dec(q[i], acc.atts)
         IN  DecList(q, i + 1, [v |-> Append(acc.v, r.t), atts |-> r.atts])
DecDict(q, i, acc) ==
    IF i > Len(q) THEN acc
    ELSE LET r == Dec(q[i][2], acc.atts)
         IN  DecDict(q, i + 1, [v |-> Append(acc.v, <<q[i][1], r.t>>), atts |-> r.atts])

Deconstruct(t) == Dec(t, <<>>)

RECURSIVE Reconstruct(_, _)
Reconstruct(t, atts) ==
    CASE t.k = "ph"   -> [k |-> "bytes", b |-> atts[t.num + 1]]
      [] t.k = "list" -> [k |-> "list", v |-> [i \in 1..Len(t.v) |-> Reconstruct(t.v[i], atts)]]
      [] t.k = "dict" -> [k |-> "dict", v |-> [i \in 1..Len(t.v) |-> <<t.v[i][1], Reconstruct(t.v[i][2], atts)>>]]
      [] OTHER -> t

(* compact JSON text of a (deconstructed) tree                             *)
RECURSIVE JsonText(_), JoinList(_, _), JoinDict(_, _)
JsonText(t) ==
    CASE t.k = "null" -> <<"n", "u", "l", "l">>
      [] t.k = "bool" -> IF t.v THEN <<"t", "r", "u", "e">> ELSE <<"f", "a", "l", "s", "e">>
      [] t.k = "num"  -> t.text
      [] t.k = "str"  -> t.text
      [] t.k = "ph"   -> <<"{", "\"", "_", "p", "l", "a", "c", "e", "h", "o", "l", "d", "e", "r", "\"", ":",
                           "t", "r", "u", "e", ",", "\"", "n", "u", "m", "\"", ":">> \o NatChars(t.num) \o <<"}">>
      [] t.k = "list" -> <<"[">> \o JoinList(t.v, 1) \o <<"]">>
      [] t.k = "dict" -> <<"{">> \o JoinDict(t.v, 1) \o <<"}">>
JoinList(q, i) ==
    IF i > Len(q) THEN <<>>
    ELSE (IF i > 1 THEN <<",">> ELSE <<>>) \o JsonText(q[i]) \o JoinList(q, i + 1)
JoinDict(q, i) ==
    IF i > Len(q) THEN <<>>
    ELSE (IF i > 1 THEN <<",">> ELSE <<>>) \o q[i][1].text \o <<":">> \o JsonText(q[i][2]) \o JoinDict(q, i + 1)

(* JSON text of a string made of characters that need no escape other than *)
(* the quote and the backslash (used for the universe TLC builds itself)   *)
RECURSIVE Esc(_)
Esc(s) == IF s = <<>> THEN <<>>
          ELSE (IF Head(s) \in {"\"", "\\"} THEN <<"\\", Head(s)>> ELSE <<Head(s)>>) \o Esc(Tail(s))
Str(s) == [k |-> "str", s |-> s, text |-> <<"\"">> \o Esc(s) \o <<"\"">>]
Num(text) == [k |-> "num", text |-> text]
Bytes(b) == [k |-> "bytes", b |-> b]
List(q) == [k |-> "list", v |-> q]
Dict(q) == [k |-> "dict", v |-> q]

----------------------------------------------------------------------------
(* packets: p = [ty |-> 0..6, ns |-> chars or NONE, id |-> digit chars or  *)
(* NONE, data |-> tree or [k |-> "absent"]]                                *)
Absent == [k |-> "absent"]
IsBinaryType(ty) == ty \in {5, 6}

(* the type a packet has on the wire (byte strings promote EVENT/ACK)      *)
WireType(p) ==
    IF p.data # Absent /\ HasBytes(p.data)
    THEN CASE p.ty = 2 -> 5 [] p.ty = 3 -> 6 [] p.ty \in {5, 6} -> p.ty [] OTHER -> 99  \* 99: not allowed
    ELSE p.ty

RefFrame(p) ==
    LET ty == WireType(p)
        d  == IF p.data = Absent THEN [t |-> Absent, atts |-> <<>>]
              ELSE IF IsBinaryType(ty) THEN Deconstruct(p.data)
              ELSE [t |-> p.data, atts |-> <<>>]
    IN  [ text |-> <<DigitOf(ty)>>
                   \o (IF IsBinaryType(ty) THEN NatChars(Len(d.atts)) \o <<"-">> ELSE <<>>)
                   \o (IF p.ns # NONE /\ p.ns # <<"/">> THEN p.ns \o <<",">> ELSE <<>>)
                   \o (IF p.id # NONE THEN p.id ELSE <<>>)
                   \o (IF d.t # Absent THEN JsonText(d.t) ELSE <<>>),
          atts |-> d.atts ]

(* Packet.decode's reading of the header                                   *)
Err(why) == [ok |-> FALSE, why |-> why]
Scan(f) ==
    IF f = <<>> \/ f[1] \notin Digits THEN Err("type")
    ELSE
    LET ep0   == Tail(f)
        dash  == Find(ep0, "-")                                    \* python: dash = this - 1
        count == dash > 1 /\ IsDigitSeq(SubSeq(ep0, 1, dash - 1))  \* dash > 0 and ep[0:dash].isdigit()
    IN
    IF count /\ dash - 1 > 10 THEN Err("too many attachments")
    ELSE
    LET cnt  == IF count THEN SubSeq(ep0, 1, dash - 1) ELSE <<>>
        ep1  == IF count THEN From(ep0, dash + 1) ELSE ep0
        isNs == ep1 # <<>> /\ ep1[1] = "/"
        sep  == Find(ep1, ",")
        nsq  == IF ~isNs THEN NONE ELSE IF sep = 0 THEN ep1 ELSE SubSeq(ep1, 1, sep - 1)
        ep2  == IF ~isNs THEN ep1 ELSE IF sep = 0 THEN <<>> ELSE From(ep1, sep + 1)
        q    == Find(nsq, "?")
        ns   == IF isNs /\ q > 0 THEN SubSeq(nsq, 1, q - 1) ELSE nsq
        hasId == ep2 # <<>> /\ ep2[1] \in Digits
        \* i = 1; while i < end: if not digit or i >= 100: break; i += 1
        run  == IF ~hasId THEN 0
                ELSE CHOOSE i \in 1..Len(ep2) :
                        /\ \A j \in 1..i : ep2[j] \in Digits
                        /\ (i = Len(ep2) \/ ep2[i + 1] \notin Digits \/ i >= 100)
                        /\ \A k \in 1..(i - 1) : ~(ep2[k + 1] \notin Digits \/ k >= 100)
        id   == IF hasId THEN SubSeq(ep2, 1, run) ELSE NONE
        ep3  == From(ep2, run + 1)
    IN  IF hasId /\ ep3 # <<>> /\ ep3[1] \in Digits THEN Err("id field is too long")
        ELSE [ok |-> TRUE, ty |-> f[1], cnt |-> cnt, ns |-> ns, id |-> id, rest |-> ep3]

(* what decoding RefFrame(p) must give back: "/" is the implied default    *)
(* namespace, a query string is dropped, the type is the wire type         *)
NsRead(ns) == LET q == Find(ns, "?") IN IF q > 0 THEN SubSeq(ns, 1, q - 1) ELSE ns
Decoded(p) == [ty |-> WireType(p), ns |-> IF p.ns = NONE THEN <<"/">> ELSE NsRead(p.ns), id |-> p.id, data |-> p.data]

----------------------------------------------------------------------------
(* The universe TLC enumerates itself: hostile little alphabet so that     *)
(* every adjacency the statement worries about occurs                      *)
NsU == { NONE, <<"/">>, <<"/", "a">>, <<"/", "a", "-", "b">>, <<"/", "1", "-", "2">>, <<"/", "1", "2", "-">>,
         <<"/", "a", "/", "b">>, <<"/", "a", "?", "q", "=", "1", "-", "2">>, <<"/", "7">> }
Nines(n) == [i \in 1..n |-> "9"]
IdU == { NONE, <<"0">>, <<"7">>, <<"1", "2">>, <<"1", "2", "3", "4", "5", "6", "7", "8", "9", "0", "1">>, Nines(100) }

Ev(name, args) == List(<<Str(name)>> \o args)
B1 == Bytes("b1")  B2 == Bytes("b2")
EventData ==
    { Ev(<<"e">>, <<>>), Ev(<<"e">>, <<Num(<<"1">>)>>), Ev(<<"1", "-", "2">>, <<Str(<<"x", ",", "y">>)>>),
      Ev(<<"e", "-", "1">>, <<Str(<<"/", "a", ",">>), Num(<<"-", "5">>)>>),
      Ev(<<"e">>, <<Dict(<< <<Str(<<"a", "-", "b">>), Num(<<"1">>)>>, <<Str(<<"k">>), List(<<>>)>> >>), [k |-> "null"], [k |-> "bool", v |-> TRUE]>>),
      Ev(<<"e">>, <<Str(<<"\"", "\\", "?">>)>>),
      Ev(<<"e">>, <<B1>>), Ev(<<"e">>, <<B1, Str(<<"x">>), B2>>),
      Ev(<<"e">>, <<Dict(<< <<Str(<<"a">>), B1>>, <<Str(<<"b">>), List(<<B2, List(<<B1>>)>>)>> >>), B2>>),
      Ev(<<"e">>, <<List(<<List(<<List(<<B1>>)>>)>>)>>) }
AckData ==
    { List(<<>>), List(<<Num(<<"1">>)>>), List(<<Str(<<"2", "-">>), Dict(<<>>)>>), List(<<B1>>),
      List(<<Dict(<< <<Str(<<"x">>), B2>> >>), B1>>) }
OtherData == { Absent, Dict(<< <<Str(<<"s", "i", "d">>), Str(<<"1", "2", "-", "3">>)>> >>), Str(<<"m", "-", "1", ",">>),
               Dict(<< <<Str(<<"a">>), B1>> >>) }

Universe0 ==
    [ty : {2, 5}, ns : NsU, id : IdU, data : EventData]
    \cup [ty : {3, 6}, ns : NsU, id : IdU \ {NONE}, data : AckData]
    \cup [ty : {0, 1, 4}, ns : NsU, id : {NONE}, data : OtherData]
(* a BINARY_EVENT / BINARY_ACK normally is an event / ack that holds byte   *)
(* strings; one WITHOUT any (explicit type, or binary=True) is a packet    *)
(* too: it announces zero attachments ("50-...")                            *)
Universe == Universe0

WellFormed(p) == WireType(p) # 99 /\ (IsBinaryType(p.ty) => p.data # Absent)

(* C01 on the specification itself                                         *)
RoundTripHeader ==
    \A p \in Universe : WellFormed(p) =>
        LET f == RefFrame(p) s == Scan(f.text) d == Decoded(p)
            dt == IF IsBinaryType(WireType(p)) THEN Deconstruct(p.data).t ELSE p.data
        IN  /\ s.ok
            /\ s.ty = DigitOf(d.ty)
            /\ s.cnt = (IF IsBinaryType(d.ty) THEN NatChars(Len(f.atts)) ELSE <<>>)
            /\ (IF s.ns = NONE THEN <<"/">> ELSE s.ns) = d.ns
            /\ s.id = d.id
            /\ s.rest = (IF p.data = Absent THEN <<>> ELSE JsonText(dt))

RoundTripAttachments ==
    \A p \in Universe : (p.data # Absent /\ WireType(p) # 99) =>
        LET d == Deconstruct(p.data)
        IN  /\ Reconstruct(d.t, d.atts) = p.data
            /\ ~HasBytes(d.t)
            /\ (HasBytes(p.data) <=> d.atts # <<>>)

BytesOnlyInEventsAndAcks ==
    \A p \in Universe : (p.data # Absent /\ HasBytes(p.data)) => (WireType(p) = 99 <=> p.ty \in {0, 1, 4})

VARIABLE tick
Init == tick = 0
Next == tick' = tick
=============================================================================
