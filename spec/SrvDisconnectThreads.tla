------------------------ MODULE SrvDisconnectThreads ------------------------
(***************************************************************************)
(* C20 - the threaded Server when several threads end the same client's    *)
(* connection concurrently.  Each thread runs one terminating action       *)
(*   "api"       Server.disconnect(sid, "/")            server.py 384-409  *)
(*   "api_other" Server.disconnect(sidA, "/a")          (other namespace   *)
(*                                                       of the transport) *)
(*   "rxdisc"    the client's DISCONNECT packet for "/" server.py 561-570  *)
(*   "lost"      loss of the transport                  server.py 668-674  *)
(*   "emit_cb"   (asyncio model only) emit(to = c1, callback = ...) racing  *)
(*               the terminations: AsyncManager.emit registers the callback *)
(*               id, then suspends in the send      async_manager.py 51-63  *)
(* and its program counter names the NEXT access it makes to the client    *)
(* manager / the transport layer / the application handler - pre-emption   *)
(* happens exactly there (the granularity the property names).             *)
(*                                                                         *)
(* Client c1 is the session on "/" of transport t1, cA its session on      *)
(* "/a" (when TwoNs), cB a bystander on "/" from another transport (when   *)
(* Bystander; it keeps the namespace entry of the manager alive).          *)
(***************************************************************************)
EXTENDS Naturals, Sequences, FiniteSets, TLC

CONSTANTS
    Ops,        \* sequence of thread programs, e.g. <<"api", "rxdisc">>
    TwoNs,      \* BOOLEAN
    Bystander,  \* BOOLEAN
    Dev,        \* {"D7"}: the check-then-mark window of the code; {} = atomic gate (design)
    YieldAt     \* labels at which a thread can be pre-empted.  Threaded server: every
                \* access (all labels).  asyncio server: only where a coroutine really
                \* suspends - the send to the transport and the application handler -
                \* which makes the same program text the model of AsyncServer (C04).

VARIABLES st, gh
vars == <<st, gh>>

Threads == 1..Len(Ops)
NsOfSid(x) == IF x = "cA" THEN "/a" ELSE "/"

InitThread(op) == [op |-> op, pc |-> "start", sid |-> "none", todo |-> <<>>, ns |-> "", dest |-> FALSE, res |-> ""]

InitSt ==
    [ member  |-> [c1 |-> TRUE, cA |-> TwoNs, cB |-> Bystander],   \* in the manager's rooms
      pending |-> [c1 |-> 0, cA |-> 0],                           \* occurrences in pending_disconnect
      hruns   |-> [c1 |-> 0, cA |-> 0],                           \* disconnect handler invocations
      environ |-> TRUE,                                          \* server.environ has the transport
      sent    |-> 0,                                             \* DISCONNECT packets sent to t1
      open    |-> TRUE,                                          \* t1's engine.io socket is not closed yet
      cb      |-> 0,                                             \* callbacks (and their id counter) the manager holds for c1
      th      |-> [i \in Threads |-> InitThread(Ops[i])] ]

NsAlive(s, ns) == IF ns = "/" THEN s.member.c1 \/ s.member.cB ELSE s.member.cA
IsConnected(s, x) == x # "none" /\ s.pending[x] = 0 /\ s.member[x]
SidOn(s, ns) ==         \* sid_from_eio_sid(t1, ns)
    IF ns = "/" THEN (IF s.member.c1 THEN "c1" ELSE "none") ELSE (IF s.member.cA THEN "cA" ELSE "none")

(* a thread ends; the one that processed the loss of the transport then    *)
(* marks the engine.io socket closed (engineio socket.py close())          *)
Done(s, i, r) == [s EXCEPT !.th[i].pc = "done", !.th[i].res = r,
                           !.open = IF s.th[i].op = "lost" THEN FALSE ELSE @]
Goto(s, i, l) == [s EXCEPT !.th[i].pc = l]

(* pre_disconnect (base_manager.py 74-84): append to the pending list, then *)
(* look the client up - KeyError when the namespace entry has vanished      *)
PreDisconnect(s, i, x, next) ==
    LET s1 == [s EXCEPT !.pending[x] = @ + 1, !.th[i].dest = s.member[x]]
    IN  IF ~NsAlive(s, NsOfSid(x)) THEN Done(s1, i, "KeyError") ELSE Goto(s1, i, next)

(* basic_disconnect (base_manager.py 86-102) *)
BasicDisconnect(s, x) ==
    IF ~NsAlive(s, NsOfSid(x)) THEN s
    ELSE [s EXCEPT !.member[x] = FALSE, !.pending[x] = IF @ > 0 THEN @ - 1 ELSE 0,
                   !.cb = IF x = "c1" THEN 0 ELSE @]

(* what follows the end of one namespace's termination *)
AfterOne(s, i) ==
    LET t == s.th[i]
    IN  IF t.op # "lost" THEN Done(s, i, "ok")
        ELSE IF t.todo = <<>> THEN Goto(s, i, "environ.has")
        ELSE [s EXCEPT !.th[i].todo = Tail(@), !.th[i].sid = "none",
                       !.th[i].pc = "m.sid_from_eio_sid"]

(* the client turned out not to be connected: nothing to do for it *)
NotConn(s, i) ==
    LET t == s.th[i]
    IN  IF t.op = "lost"
        THEN (IF t.todo = <<>> THEN Goto(s, i, "environ.has")
              ELSE [s EXCEPT !.th[i].ns = Head(t.todo), !.th[i].todo = Tail(t.todo),
                             !.th[i].sid = "none", !.th[i].pc = "m.sid_from_eio_sid"])
        ELSE Done(s, i, "ok")
Marked(s, x) == x # "none" /\ s.pending[x] > 0

Step(s, i) ==
    LET t == s.th[i] IN
    CASE t.pc = "start" ->
            (CASE t.op = "api"       -> [s EXCEPT !.th[i].pc = "m.can_disconnect", !.th[i].sid = "c1", !.th[i].ns = "/"]
               [] t.op = "api_other" -> [s EXCEPT !.th[i].pc = "m.can_disconnect", !.th[i].sid = "cA", !.th[i].ns = "/a"]
               [] t.op = "rxdisc"    -> [s EXCEPT !.th[i].pc = "m.sid_from_eio_sid", !.th[i].ns = "/"]
               [] t.op = "lost"      -> Goto(s, i, "m.get_namespaces")
               [] t.op = "emit_cb"   -> Goto(s, i, "m.participants"))
      [] t.pc = "m.participants" ->       \* get_participants("/", <c1's personal room>)
            (IF s.member.c1 THEN Goto(s, i, "m.gen_ack") ELSE Done(s, i, "ok"))
      [] t.pc = "m.gen_ack" ->            \* _generate_ack_id: the callback is registered ...
            [s EXCEPT !.cb = @ + 1, !.th[i].pc = "task.start"]
      [] t.pc = "task.start" ->           \* the send runs in a task of its own: it starts when the loop gets to it
            Goto(s, i, "eio.send_ev")
      [] t.pc = "eio.send_ev" ->          \* ... and the EVENT goes out (a closed transport drops it)
            Done(s, i, "ok")
      [] t.pc = "m.get_namespaces" ->       \* snapshot of the manager's namespaces, in its dict order
            (LET nss == (IF NsAlive(s, "/") THEN <<"/">> ELSE <<>>) \o (IF NsAlive(s, "/a") THEN <<"/a">> ELSE <<>>)
             IN  IF nss = <<>> THEN Goto(s, i, "environ.has")
                 ELSE [s EXCEPT !.th[i].ns = Head(nss), !.th[i].todo = Tail(nss),
                                !.th[i].pc = "m.sid_from_eio_sid"])
      [] t.pc = "m.sid_from_eio_sid" ->
            [s EXCEPT !.th[i].sid = SidOn(s, t.ns), !.th[i].pc = "m.is_connected"]
      [] t.pc \in {"m.can_disconnect", "m.is_connected"} ->
            (IF "D7" \in Dev
             \* the code: is_connected reads the mark first (base_manager.py 62-66) ...
             THEN (IF Marked(s, t.sid) THEN NotConn(s, i) ELSE Goto(s, i, "isc.member"))
             \* design: the gate is atomic - test and mark in one step
             ELSE IF ~IsConnected(s, t.sid) THEN NotConn(s, i)
             ELSE PreDisconnect(s, i, t.sid, IF t.op \in {"api", "api_other"} THEN "eio.send" ELSE "handler"))
      [] t.pc = "isc.member" ->           \* ... and the membership second (67-70): two accesses
            (IF t.sid # "none" /\ s.member[t.sid]
             THEN [Goto(s, i, "m.pre_disconnect") EXCEPT !.th[i].dest = FALSE]
             ELSE NotConn(s, i))
      [] t.pc = "m.pre_disconnect" ->
            PreDisconnect(s, i, t.sid, IF t.op \in {"api", "api_other"} THEN "eio.send" ELSE "handler")
      [] t.pc = "eio.send" ->
            \* the DISCONNECT packet goes to the transport the lookup returned (none: dropped)
            [s EXCEPT !.sent = IF t.dest /\ s.open THEN @ + 1 ELSE @, !.th[i].pc = "handler"]
      [] t.pc = "handler" ->
            [s EXCEPT !.hruns[t.sid] = @ + 1, !.th[i].pc = "m.disconnect"]
      [] t.pc = "m.disconnect" ->
            (IF t.op = "lost" /\ t.todo # <<>>
             THEN [BasicDisconnect(s, t.sid) EXCEPT !.th[i].ns = Head(t.todo),
                       !.th[i].todo = Tail(t.todo), !.th[i].sid = "none",
                       !.th[i].pc = "m.sid_from_eio_sid"]
             ELSE IF t.op = "lost" THEN Goto(BasicDisconnect(s, t.sid), i, "environ.has")
             ELSE Done(BasicDisconnect(s, t.sid), i, "ok"))
      [] t.pc = "environ.has" ->
            (IF s.environ THEN Goto(s, i, "environ.del") ELSE Done(s, i, "ok"))
      [] t.pc = "environ.del" ->
            (IF s.environ THEN Done([s EXCEPT !.environ = FALSE], i, "ok") ELSE Done(s, i, "KeyError"))

(* a scheduling step: the thread performs its pending access and runs on   *)
(* until its next pre-emption point                                        *)
RECURSIVE RunOn(_, _)
RunOn(s, i) == IF s.th[i].pc \in YieldAt \cup {"done"} THEN s ELSE RunOn(Step(s, i), i)
Sched(s, i) == RunOn(Step(s, i), i)

Runnable(s) == {i \in Threads : s.th[i].pc # "done"}

InitGh == [dev |-> {}]
(* D7: a thread marks the client although it is no longer connected         *)
GhostNext(s, g, i) ==
    LET t == s.th[i]
    IN  IF t.pc = "m.pre_disconnect" /\ ~IsConnected(s, t.sid) THEN [g EXCEPT !.dev = @ \cup {"D7"}] ELSE g
(* (with the asyncio YieldAt nobody is ever parked at "m.pre_disconnect")  *)

Init == st = InitSt /\ gh = InitGh
Next == \E i \in Runnable(st) : st' = Sched(st, i) /\ gh' = GhostNext(st, gh, i)
Spec == Init /\ [][Next]_vars

(* ---- the property ------------------------------------------------------ *)
AllDone == \A i \in Threads : st.th[i].pc = "done"
Terminated(x) ==        \* some thread was meant to end client x
    \E i \in Threads : Ops[i] = "lost" \/ (Ops[i] \in {"api", "rxdisc"} /\ x = "c1")
                                       \/ (Ops[i] = "api_other" /\ x = "cA")

C20_HandlerAtMostOnce == gh.dev = {} => \A x \in {"c1", "cA"} : st.hruns[x] <= 1
C20_HandlerExactlyOnce ==
    (gh.dev = {} /\ AllDone) => \A x \in {"c1", "cA"} : (InitSt.member[x] /\ Terminated(x)) => st.hruns[x] = 1
C20_NoThreadRaises == gh.dev = {} => \A i \in Threads : st.th[i].res \in {"", "ok"}
C20_CleanAfterwards ==
    (gh.dev = {} /\ AllDone) =>
        /\ \A x \in {"c1", "cA"} : Terminated(x) => ~st.member[x] /\ st.pending[x] = 0
        /\ ((\E i \in Threads : Ops[i] = "lost") => ~st.environ)
(* C11 / C06 under asyncio schedules: whatever the order of an emit with a  *)
(* callback and the terminations, nothing is kept for a client that is gone *)
C11_NoCallbackResidue == (AllDone /\ ~st.member.c1) => st.cb = 0
D7_NotTaken == gh.dev = {}
=============================================================================
