------------------------------- MODULE Admin -------------------------------
(***************************************************************************)
(* The instrumented server (admin.py / async_admin.py): SioServer plus an  *)
(* admin namespace.  Three things are specified:                           *)
(*                                                                         *)
(*  1. Accept(auth, payload): who may connect to the admin namespace.      *)
(*     Credentials and payloads are VALUES (dicts are functions, so two    *)
(*     dicts with the same items in another order are the same value;      *)
(*     scalars carry their type), not a table of named cases.              *)
(*  2. AdminReq: what a request from a connected admin client does to the  *)
(*     application's clients: nothing at all unless mode = "development"   *)
(*     and ~ReadOnly, and then exactly what the corresponding server call  *)
(*     does (emit / enter_room / leave_room / disconnect of the addressed  *)
(*     participants).                                                      *)
(*  3. Transparency: every other action is SioServer's Do() unchanged -    *)
(*     the instrumented server with or without an admin attached must be   *)
(*     the plain server as far as application clients can tell (the        *)
(*     projection hides the admin namespace and the admin's transport).    *)
(***************************************************************************)
EXTENDS SioServer

CONSTANTS Mode,         \* "development" | "production"
          ReadOnly      \* BOOLEAN

----------------------------------------------------------------------------
(* 1. credentials                                                          *)
StrV(x) == [k |-> "str", v |-> x]
IntV(x) == [k |-> "int", v |-> x]
Dict(f) == [k |-> "dict", v |-> f]
D1 == ("password" :> StrV("secret")) @@ ("username" :> StrV("admin"))
D2 == ("password" :> StrV("1234")) @@ ("username" :> StrV("bob"))

AuthCfgs == { [k |-> "off"],                       \* auth=False
              [k |-> "dict", d |-> Dict(D1)],
              [k |-> "list", l |-> <<Dict(D1), Dict(D2)>>],
              [k |-> "pred"], [k |-> "apred"] }    \* predicate: payload is a dict whose "username" is "admin"

Payloads ==
    { [k |-> "absent"], [k |-> "none"],
      StrV("admin"), [k |-> "bool", v |-> TRUE],
      [k |-> "list", v |-> <<Dict(D1)>>],                                 \* [D1]: a list containing the credentials
      Dict(D1), Dict(D2),
      Dict("username" :> StrV("admin")),                                    \* subset
      Dict(D1 @@ ("extra" :> StrV("x"))),                                   \* superset
      Dict(("password" :> StrV("wrong")) @@ ("username" :> StrV("admin"))),  \* wrong value
      Dict(("password" :> IntV(1234)) @@ ("username" :> StrV("bob"))),       \* type-confused: 1234 for "1234"
      Dict(("password" :> StrV("secret")) @@ ("username" :> StrV("Admin"))), \* case
      Dict("auth" :> Dict(D1)),                                            \* nested
      Dict(<<>>) }                                                         \* {}

PredHolds(p) == p.k = "dict" /\ "username" \in DOMAIN p.v /\ p.v["username"] = StrV("admin")

Accept(auth, p) ==
    \/ auth.k = "off"
    \/ auth.k = "dict" /\ p = auth.d
    \/ auth.k = "list" /\ \E i \in 1..Len(auth.l) : p = auth.l[i]
    \/ auth.k \in {"pred", "apred"} /\ PredHolds(p)

(* the statement, spelled out: accepted only if disabled, equal, member or *)
(* predicate; in particular never for a strict subset / superset / nested  *)
(* / type-confused variant of the credentials                              *)
AcceptOnlyWhenEntitled ==
    \A auth \in AuthCfgs : \A p \in Payloads :
        Accept(auth, p) =>
            \/ auth.k = "off"
            \/ auth.k = "dict" /\ p.k = "dict" /\ DOMAIN p.v = DOMAIN D1 /\ \A f \in DOMAIN D1 : p.v[f] = D1[f]
            \/ auth.k = "list" /\ p.k = "dict" /\ \E d \in {D1, D2} : DOMAIN p.v = DOMAIN d /\ \A f \in DOMAIN d : p.v[f] = d[f]
            \/ auth.k \in {"pred", "apred"} /\ PredHolds(p)

----------------------------------------------------------------------------
(* 2. admin requests                                                       *)
Gated == Mode # "development" \/ ReadOnly

(* the participants a request addresses: get_participants(ns, room_filter) *)
Addressees(s, ns, filter) ==
    DOMAIN Get(Get(s.rooms, ns, <<>>), IF filter = "none" THEN "None" ELSE filter, <<>>)

RECURSIVE JoinEach(_, _, _, _)
JoinEach(m, sids, room, ns) ==
    IF sids = {} THEN m
    ELSE LET x == CHOOSE x \in sids : TRUE
         IN  JoinEach(EnterRoom(m, x, room, ns), sids \ {x}, room, ns)
RECURSIVE LeaveEach(_, _, _, _)
LeaveEach(m, sids, room, ns) ==
    IF sids = {} THEN m
    ELSE LET x == CHOOSE x \in sids : TRUE
         IN  LeaveEach(LeaveRoom(m, x, room, ns), sids \ {x}, room, ns)
RECURSIVE DisconnectEach(_, _, _)
DisconnectEach(m, sids, ns) ==
    IF sids = {} THEN m
    ELSE LET x == CHOOSE x \in sids : TRUE
         IN  DisconnectEach(Disconnect(m, x, ns), sids \ {x}, ns)

AdminReq(m, a) ==
    IF Gated THEN m
    ELSE CASE a.kind = "emit" ->
                Emit(m, [ns |-> a.ns, toKind |-> IF a.filter = "none" THEN "none" ELSE "one",
                         to |-> IF a.filter = "none" THEN <<>> ELSE <<a.filter>>,
                         skipKind |-> "none", skip |-> <<>>, ev |-> "msg", data |-> "v1", cb |-> ""])
           [] a.kind = "join"  -> JoinEach(m, Addressees(m.s, a.ns, a.filter), a.room, a.ns)
           [] a.kind = "leave" -> LeaveEach(m, Addressees(m.s, a.ns, a.filter), a.room, a.ns)
           [] a.kind = "_disconnect" -> DisconnectEach(m, Addressees(m.s, a.ns, a.filter), a.ns)

ADo(s, a) ==
    IF a.act = "AdminReq"
    THEN LET m == AdminReq(M0(s), a)
         IN  IF m.exc = "" THEN m ELSE [m EXCEPT !.res = <<"contained", m.exc>>]
    ELSE Do(s, a)

AEnabled(s, a) == IF a.act = "AdminReq" THEN s.nextSid > a.need ELSE Enabled(s, a)

AActs(s) == {Alphabet[i] : i \in {k \in 1..Len(Alphabet) : AEnabled(s, Alphabet[k])}}

ANext == \E a \in AActs(st) : st' = ADo(st, a).s /\ gh' = gh

ASpec == Init /\ [][ANext]_vars

----------------------------------------------------------------------------
(* C18 - in read-only or production mode no admin request touches the      *)
(* application: no packet to any application client, no handler run, no    *)
(* change of any state the application can see                             *)
C18_GatedRequestsDoNothing ==
    Gated => \A a \in AActs(st) : a.act = "AdminReq" =>
                LET d == ADo(st, a) IN d.s = st /\ d.pk = <<>> /\ d.hc = <<>> /\ d.cbs = <<>>

(* C18 - an ungated request does exactly what the server call does         *)
C18_UngatedRequestIsTheServerCall ==
    ~Gated => \A a \in AActs(st) : (a.act = "AdminReq" /\ a.kind = "emit") =>
                ADo(st, a).pk = Do(st, [act |-> "Emit", ns |-> a.ns,
                                        toKind |-> IF a.filter = "none" THEN "none" ELSE "one",
                                        to |-> IF a.filter = "none" THEN <<>> ELSE <<a.filter>>,
                                        skipKind |-> "none", skip |-> <<>>, ev |-> "msg",
                                        data |-> "v1", cb |-> ""]).pk
=============================================================================
