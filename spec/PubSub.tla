------------------------------- MODULE PubSub -------------------------------
(***************************************************************************)
(* A cluster of Socket.IO servers joined by a pub/sub channel:             *)
(* PubSubManager / AsyncPubSubManager (pubsub_manager.py) on top of the    *)
(* single-host server of SioServer.tla.                                    *)
(*                                                                         *)
(*   hs[h]   the SioServer core of host h (rooms, pending, callbacks, ...) *)
(*   chan    the ordered channel: messages not yet consumed by every host  *)
(*   pos[h]  how many elements of chan host h's listener has consumed      *)
(*   alive[h] the listener loop of host h is still running                 *)
(*                                                                         *)
(* One action per public call on a host / per incoming frame on a host /   *)
(* per message consumed by a host's listener (one turn of the loop in      *)
(* PubSubManager._thread).  Every action is total and deterministic, so    *)
(* the transition graph of N real servers joined by an in-memory channel   *)
(* is compared with it edge by edge (PubSubGraph) and count by count.      *)
(*                                                                         *)
(* Per-host behaviour is NOT re-specified: it is SioServer's (instance S). *)
(* What is specified here is what pubsub_manager.py adds: what is handled  *)
(* locally, what is published, what a listener does with each message      *)
(* class (including everything that is not a well-formed message: C15).    *)
(***************************************************************************)
EXTENDS Naturals, Integers, Sequences, FiniteSets, TLC

CONSTANTS
    Hosts,          \* set of host names ("h1", "h2", ...)
    HostOf,         \* function: transport -> host it is connected to
    WriteOnly,      \* TRUE iff a write-only manager "w" (external emitter) exists
    MaxChan,        \* budget: messages in flight
    Immediate,      \* TRUE: operations only when every host has consumed everything
    NsAll,          \* every namespace name of the alphabet (for the callback tags)
    CbCancel,       \* TRUE: an application callback that "raises" raises asyncio.CancelledError
                    \* (it awaited something that was cancelled): trigger_callback swallows it
                    \* (async_manager.py 117-121) - nothing is raised, the listener goes on
    Transports, NsH, NsListed, NsStar, HKind, AlwaysConnect, AsyncHandlers,
    MaxSid, MaxAck, Alphabet, Dev

VARIABLES st, gh
vars == <<st, gh>>

S == INSTANCE SioServer

Put(f, k, v) == S!Put(f, k, v)
Del(f, k)    == S!Del(f, k)
Has(f, k)    == S!Has(f, k)
Get(f, k, d) == S!Get(f, k, d)
Range(f)     == S!Range(f)

----------------------------------------------------------------------------
(* Core state                                                              *)
InitSt ==
    [ hs    |-> [h \in Hosts |-> S!InitSt],
      chan  |-> <<>>,
      pos   |-> [h \in Hosts |-> 0],
      alive |-> [h \in Hosts |-> TRUE],
      cbRaise |-> FALSE ]     \* environment: application callbacks raise

(* session ids are globally unique: every host's allocator is kept in step *)
NextSid(c) == S!SidName(c.hs[CHOOSE h \in Hosts : TRUE].nextSid)
SyncSid(hs) ==
    LET n == CHOOSE n \in {hs[h].nextSid : h \in Hosts} : \A h \in Hosts : hs[h].nextSid <= n
    IN  [h \in Hosts |-> [hs[h] EXCEPT !.nextSid = n]]

(* The local callback a receiving host installs for an emit that carries a *)
(* callback: functools.partial(self._return_callback, host_id, room, ns,   *)
(* id) (pubsub_manager.py:137-140).  Callback tags are strings in          *)
(* SioServer; the partial is the string below and is decoded by search.    *)
Tag(host, room, ns, id) == "ret|" \o host \o "|" \o room \o "|" \o ns \o "|" \o ToString(id)
SidNames == {S!SidName(i) : i \in 1..MaxSid}
HostNames == Hosts \cup {"w", "hx", "nobody", "absent"}
    \* "hx": a host outside the modelled cluster (forged / foreign messages);
    \* "nobody" / "absent": host_id None / no host_id at all
Partials == [host : HostNames, room : SidNames, ns : NsAll, id : 1..(MaxAck + 1)]
TagOfP(p) == Tag(p.host, p.room, p.ns, p.id)
IsPartial(tag) == \E p \in Partials : TagOfP(p) = tag
PartialOf(tag) == CHOOSE p \in Partials : TagOfP(p) = tag

----------------------------------------------------------------------------
(* Messages                                                                *)
EmitMsg(h, a, cb) ==
    [method |-> "emit", host |-> h, ev |-> a.ev, data |-> a.data, ns |-> a.ns,
     toKind |-> a.toKind, to |-> a.to, skipKind |-> a.skipKind, skip |-> a.skip,
     cb |-> cb]
SidMsg(method, h, sid, ns) == [method |-> method, host |-> h, sid |-> sid, ns |-> ns]
RoomMsg(method, h, sid, room, ns) == [method |-> method, host |-> h, sid |-> sid, room |-> room, ns |-> ns]
CloseMsg(h, room, ns) == [method |-> "close_room", host |-> h, room |-> room, ns |-> ns]
CbMsg(host, sid, ns, id, args) == [method |-> "callback", host |-> host, sid |-> sid, ns |-> ns, id |-> id, args |-> args]

(* Outcome of a cluster action: the hosts, what is published, outputs      *)
Out(hs, pub, m, kind) ==
    [hs |-> hs, pub |-> pub, pk |-> m.pk, hc |-> m.hc, cbs |-> m.cbs, set |-> m.set,
     res |-> IF m.exc = "" THEN m.res ELSE <<kind, m.exc>>]

OnHost(c, h, m, pub, kind) ==
    Out([c.hs EXCEPT ![h] = m.s], IF m.exc = "" THEN pub ELSE <<>>, m, kind)

(* Manager.trigger_callback for a callable that may be the partial         *)
(* (_return_callback, pubsub_manager.py:160-168)                           *)
RunCallbacks(m, h, cbRaise) ==     \* m.cbs holds what trigger_callback invoked
    IF m.cbs = <<>> THEN [m |-> m, pub |-> <<>>]
    ELSE LET c == m.cbs[1]
         IN  IF ~IsPartial(c.tag)
             THEN [m |-> IF cbRaise /\ ~CbCancel THEN S!Raise(m, "Boom") ELSE m, pub |-> <<>>]
             ELSE LET p == PartialOf(c.tag)
                  IN  IF p.host = h
                      THEN \* trigger_callback(room, id, args) on this very host
                           LET k  == ToString(p.id)
                               e  == Get(m.s.cb, p.room, [next |-> 1, out |-> <<>>])
                           IN  IF Has(m.s.cb, p.room) /\ Has(e.out, k)
                               THEN LET m1 == [m EXCEPT !.s.cb = Put(@, p.room, [e EXCEPT !.out = Del(@, k)]),
                                                        !.cbs = <<[tag |-> e.out[k], args |-> c.args]>>]
                                    IN  [m |-> IF cbRaise /\ ~CbCancel THEN S!Raise(m1, "Boom") ELSE m1, pub |-> <<>>]
                               ELSE [m |-> [m EXCEPT !.cbs = <<>>], pub |-> <<>>]
                      ELSE [m |-> [m EXCEPT !.cbs = <<>>],
                            pub |-> <<CbMsg(p.host, p.room, p.ns, p.id, c.args)>>]

----------------------------------------------------------------------------
(* API calls on host h (server.py -> pubsub_manager.py)                    *)

(* PubSubManager.emit (41-72)                                              *)
PEmit(c, h, a) ==
    LET s == c.hs[h] IN
    IF a.cb # "" /\ a.toKind = "none"
    THEN OnHost(c, h, S!Raise(S!M0(s), "ValueError"), <<>>, "exc")
    ELSE IF a.cb = ""
    THEN OnHost(c, h, S!Emit(S!M0(s), a), <<EmitMsg(h, a, <<>>)>>, "exc")
    ELSE \* the origin keeps the application's callback under the ROOM name
         LET room == a.to[1]
             e    == Get(s.cb, room, [next |-> 1, out |-> <<>>])
             s1   == [s EXCEPT !.cb = Put(@, room, [next |-> e.next + 1,
                                                     out |-> Put(e.out, ToString(e.next), a.cb)])]
             cb   == <<room, a.ns, e.next>>
             m    == S!Emit(S!M0(s1), [a EXCEPT !.cb = Tag(h, room, a.ns, e.next)])
         IN  OnHost(c, h, m, <<EmitMsg(h, a, cb)>>, "exc")

(* PubSubManager.enter_room / leave_room (91-109)                          *)
PEnterRoom(c, h, a) ==
    IF S!IsConnected(c.hs[h], a.sid, a.ns)
    THEN OnHost(c, h, S!EnterRoom(S!M0(c.hs[h]), a.sid, a.room, a.ns), <<>>, "exc")
    ELSE OnHost(c, h, S!M0(c.hs[h]), <<RoomMsg("enter_room", h, a.sid, a.room, a.ns)>>, "exc")

PLeaveRoom(c, h, a) ==
    IF S!IsConnected(c.hs[h], a.sid, a.ns)
    THEN OnHost(c, h, S!LeaveRoom(S!M0(c.hs[h]), a.sid, a.room, a.ns), <<>>, "exc")
    ELSE OnHost(c, h, S!M0(c.hs[h]), <<RoomMsg("leave_room", h, a.sid, a.room, a.ns)>>, "exc")

(* PubSubManager.close_room (111-115)                                      *)
PCloseRoom(c, h, a) ==
    OnHost(c, h, S!CloseRoom(S!M0(c.hs[h]), a.room, a.ns), <<CloseMsg(h, a.room, a.ns)>>, "exc")

(* Server.disconnect -> PubSubManager.can_disconnect (74-83)               *)
PDisconnect(c, h, a) ==
    IF S!IsConnected(c.hs[h], a.sid, a.ns)
    THEN OnHost(c, h, S!Disconnect(S!M0(c.hs[h]), a.sid, a.ns), <<>>, "exc")
    ELSE OnHost(c, h, S!M0(c.hs[h]), <<SidMsg("disconnect", h, a.sid, a.ns)>>, "exc")

(* An ACK from a client of host h (server.py _handle_ack ->                 *)
(* trigger_callback -> maybe the partial)                                  *)
PRxAck(c, h, a) ==
    LET m == S!HandleAck(S!M0(c.hs[h]), a.t, a.ns, a.id, a.args)
        r == RunCallbacks(m, h, c.cbRaise)
    IN  OnHost(c, h, r.m, r.pub, "contained")

(* The write-only manager: nothing local, the message is only published    *)
(* (a callback needs a server: RuntimeError)                               *)
WEmit(c, a) ==
    IF a.cb # ""
    THEN Out(c.hs, <<>>, S!Raise(S!M0(S!InitSt), "RuntimeError"), "exc")
    ELSE Out(c.hs, <<EmitMsg("w", a, <<>>)>>, S!M0(S!InitSt), "exc")

----------------------------------------------------------------------------
(* One turn of the listener loop of host h (pubsub_manager.py:191-233)     *)

(* what a host does with a well-formed message from ANOTHER host           *)
Dispatch(s, h, msg, cbRaise) ==
    LET m0 == S!M0(s) IN
    CASE msg.method = "emit" ->
            [m |-> S!Emit(m0, [ns |-> msg.ns, toKind |-> msg.toKind, to |-> msg.to,
                               skipKind |-> msg.skipKind, skip |-> msg.skip, ev |-> msg.ev,
                               data |-> msg.data,
                               cb |-> IF msg.cb = <<>> THEN ""
                                      ELSE Tag(msg.host, msg.cb[1], msg.cb[2], msg.cb[3])]),
             pub |-> <<>>]
      [] msg.method = "disconnect" ->
            [m |-> S!Disconnect(m0, msg.sid, msg.ns), pub |-> <<>>]
      [] msg.method = "enter_room" ->
            [m |-> IF S!IsConnected(s, msg.sid, msg.ns) THEN S!EnterRoom(m0, msg.sid, msg.room, msg.ns) ELSE m0,
             pub |-> <<>>]
      [] msg.method = "leave_room" ->
            [m |-> IF S!IsConnected(s, msg.sid, msg.ns) THEN S!LeaveRoom(m0, msg.sid, msg.room, msg.ns) ELSE m0,
             pub |-> <<>>]
      [] msg.method = "close_room" ->
            [m |-> S!CloseRoom(m0, msg.room, msg.ns), pub |-> <<>>]
      [] OTHER -> [m |-> m0, pub |-> <<>>]      \* unknown method: nothing

(* a `callback` message is honoured only by the host it is addressed to    *)
DispatchCallback(s, h, msg, cbRaise) ==
    LET m0 == S!M0(s) IN
    IF msg.host # h THEN [m |-> m0, pub |-> <<>>]
    ELSE LET k == ToString(msg.id)
             e == Get(s.cb, msg.sid, [next |-> 1, out |-> <<>>])
         IN  IF Has(s.cb, msg.sid) /\ Has(e.out, k)
             THEN RunCallbacks([m0 EXCEPT !.s.cb = Put(@, msg.sid, [e EXCEPT !.out = Del(@, k)]),
                                          !.cbs = <<[tag |-> e.out[k], args |-> msg.args]>>],
                               h, cbRaise)
             ELSE [m |-> m0, pub |-> <<>>]

(* Junk on the channel (C15).  msg.method = "junk", msg.class says what     *)
(* the reference reading of the element is:                                 *)
(*   "skip"    - not a message at all (undecodable bytes, a non-dict value  *)
(*               for which `data and "method" in data` is false, a dict     *)
(*               without "method", an unknown method): nothing happens      *)
(*   "restart" - a value on which the loop's own test raises (e.g. a        *)
(*               non-zero number: `"method" in 5`): the outer handler logs  *)
(*               it and the loop re-enters _listen()                        *)
(*   "raise"   - a known method with missing / ill-typed fields: the inner  *)
(*               handler logs "Handler error" and the loop goes on          *)
(* "listen raises" is the element [method |-> "fault"]: the backend's       *)
(* iterator raises instead of yielding; the loop re-enters _listen().       *)
Consume(c, h) ==
    LET msg == c.chan[c.pos[h] + 1]
        s   == c.hs[h]
        r   == CASE msg.method \in {"junk", "fault"} ->
                      [m |-> IF msg.method = "junk" /\ msg.class = "skip" THEN S!M0(s)
                             ELSE S!Raise(S!M0(s), "X"), pub |-> <<>>]
                 [] msg.method = "callback" -> DispatchCallback(s, h, msg, c.cbRaise)
                 [] msg.host = h -> [m |-> S!M0(s), pub |-> <<>>]     \* own echo: never re-applied
                 [] OTHER -> Dispatch(s, h, msg, c.cbRaise)
    IN  OnHost(c, h, r.m, r.pub, "contained")

(* C15, in every quiet state: a junk element (or a failure of the           *)
(* backend's iterator) goes down the channel and EVERY listener takes its  *)
(* turn on it; right behind it comes a sentinel - a valid broadcast from a *)
(* foreign host - which every listener must apply with its exact effect.   *)
(* The whole episode leaves the cluster as it was.                         *)
ProbeAct == [ns |-> "/", toKind |-> "none", to |-> <<>>, skipKind |-> "none", skip |-> <<>>,
             ev |-> "probe", data |-> "v1", cb |-> ""]
RECURSIVE MergePk(_, _, _)
MergePk(c, hosts, pk) ==
    IF hosts = {} THEN pk
    ELSE LET h == CHOOSE h \in hosts : TRUE
             m == S!Emit(S!M0(c.hs[h]), ProbeAct)
         IN  MergePk(c, hosts \ {h}, [t \in DOMAIN pk \cup DOMAIN m.pk |->
                                            IF t \in DOMAIN m.pk THEN m.pk[t] ELSE pk[t]])
JunkProbe(c, a) ==
    LET quiet == a.msg.method = "junk" /\ a.msg.class = "skip"
        m     == [S!M0(S!InitSt) EXCEPT !.pk = MergePk(c, Hosts, <<>>),
                                        !.exc = IF quiet THEN "" ELSE "X"]
    IN  Out(c.hs, <<>>, m, "contained")

----------------------------------------------------------------------------
(* Dispatcher                                                              *)
IsClientAct(a) == a.act \in {"EioOpen", "EioLost", "RxConnect", "RxDisconnect", "RxEvent"}

Step(c, a) ==
    CASE IsClientAct(a) ->      \* a client talks to its own host: plain SioServer
            LET d == S!Do(c.hs[a.h], a)
            IN  [hs |-> [c.hs EXCEPT ![a.h] = d.s], pub |-> <<>>, pk |-> d.pk, hc |-> d.hc,
                 cbs |-> d.cbs, set |-> d.set, res |-> d.res]
      [] a.act = "RxAck"      -> PRxAck(c, a.h, a)
      [] a.act = "Emit"       -> IF a.h = "w" THEN WEmit(c, a) ELSE PEmit(c, a.h, a)
      [] a.act = "EnterRoom"  -> PEnterRoom(c, a.h, a)
      [] a.act = "LeaveRoom"  -> PLeaveRoom(c, a.h, a)
      [] a.act = "CloseRoom"  -> PCloseRoom(c, a.h, a)
      [] a.act = "Disconnect" -> PDisconnect(c, a.h, a)
      [] a.act = "Rooms"      ->
            LET m == [S!M0(c.hs[a.h]) EXCEPT !.set = S!RoomsOf(c.hs[a.h], a.sid, a.ns)]
            IN  OnHost(c, a.h, m, <<>>, "exc")
      [] a.act = "Consume"    -> Consume(c, a.h)
      [] a.act = "Inject"     ->   \* the environment puts something on the channel
            Out(c.hs, <<a.msg>>, S!M0(S!InitSt), "exc")
      [] a.act = "JunkProbe"  -> JunkProbe(c, a)
      [] a.act = "Arm"        ->   \* the environment: application callbacks raise from now on / no more
            Out(c.hs, <<>>, S!M0(S!InitSt), "exc")
      [] a.act = "ArmDisc"    ->   \* host h's disconnect handler of namespace ns raises / no more
            LET d == S!Do(c.hs[a.h], [a EXCEPT !.act = "Arm"])
            IN  Out([c.hs EXCEPT ![a.h] = d.s], <<>>, S!M0(S!InitSt), "exc")

(* garbage collection of the channel: drop what every host has consumed    *)
MinPos(pos) == CHOOSE n \in {pos[h] : h \in Hosts} : \A h \in Hosts : n <= pos[h]
Gc(chan, pos) ==
    LET k == MinPos(pos)
    IN  [chan |-> SubSeq(chan, k + 1, Len(chan)), pos |-> [h \in Hosts |-> pos[h] - k]]

Do(c, a) ==
    LET o    == Step(c, a)
        pos1 == IF a.act = "Consume" THEN [c.pos EXCEPT ![a.h] = @ + 1] ELSE c.pos
        g    == Gc(c.chan \o o.pub, pos1)
    IN  [o EXCEPT !.hs = SyncSid(o.hs)] @@
        [chan |-> g.chan, pos |-> g.pos, alive |-> c.alive,
         cbRaise |-> IF a.act = "Arm" THEN ~c.cbRaise ELSE c.cbRaise]

StOf(d) == [hs |-> d.hs, chan |-> d.chan, pos |-> d.pos, alive |-> d.alive, cbRaise |-> d.cbRaise]

Quiet(c) == c.chan = <<>>

Enabled(c, a) ==
    /\ a.act \notin {"Consume", "Arm", "ArmDisc", "Inject", "JunkProbe"} /\ a.h # "w"
            => S!Enabled(c.hs[a.h], a)
    /\ a.act = "JunkProbe" => Quiet(c) /\ \A h \in Hosts : c.alive[h]
    /\ (a.act = "Emit" /\ a.h = "w") \/ a.act = "Inject" => c.hs[CHOOSE h \in Hosts : TRUE].nextSid > a.need
    /\ a.act = "Consume" => c.pos[a.h] < Len(c.chan) /\ c.alive[a.h]
    /\ a.act # "Consume" => Len(c.chan) < MaxChan /\ (Immediate => Quiet(c))
    /\ IsClientAct(a) \/ a.act = "RxAck" => HostOf[a.t] = a.h

----------------------------------------------------------------------------
(* Ghosts: the vocabulary of C07 / C15                                      *)
(*   ref   - ONE SioServer holding every client, updated at the time of     *)
(*           the API call (the "single server" the cluster must behave      *)
(*           like)                                                          *)
(*   fl    - per in-flight emit (parallel to chan; "x" for other messages): *)
(*           who was addressed at publication, who was addressed at some    *)
(*           point since, who got it how often, whether a membership        *)
(*           change raced it                                                *)
(*   loc   - the same record for the emit's local leg on the issuing host   *)
(*   cbk   - emits with a callback: [origin, room, id, tag, acked args,     *)
(*           invoked count]                                                 *)
RefAct(a) == IF a.act = "Emit" THEN [a EXCEPT !.cb = ""] ELSE a

StripIds(pk) == [t \in DOMAIN pk |-> [i \in 1..Len(pk[t]) |-> [pk[t][i] EXCEPT !.id = -1]]]

RefAddressed(ref, msg) ==       \* session ids a single server would deliver msg to now
    LET skip == IF msg.skipKind = "none" THEN {} ELSE Range(msg.skip)
    IN  IF ~Has(ref.rooms, msg.ns) THEN {}
        ELSE S!Participants(ref, msg.ns, msg.toKind, msg.to) \ skip

SidsIn(o, s, ns) ==     \* session ids that were sent an event by this step, with multiplicity
    LET evs(t) == {i \in 1..Len(o.pk[t]) : o.pk[t][i].ty \in {"EVENT", "BINARY_EVENT"} /\ o.pk[t][i].ns = ns}
    IN  [t \in {t \in DOMAIN o.pk : evs(t) # {}} |-> Cardinality(evs(t))]

MembershipAct(a) == a.act \in {"EnterRoom", "LeaveRoom", "CloseRoom", "Disconnect", "RxConnect",
                               "RxDisconnect", "EioLost"}
MembershipMsg(m) == m.method \in {"enter_room", "leave_room", "close_room", "disconnect"}

InitGh ==
    [ ref  |-> S!InitSt,
      fl   |-> <<>>,
      bad  |-> {},       \* labels of clauses found violated (must stay empty)
      cbk  |-> {},
      exp  |-> [pk |-> <<>>, hc |-> <<>>],    \* Immediate: what the single server did for the operation in progress
      got  |-> [pk |-> <<>>, hc |-> <<>>] ]   \*            what the cluster has done for it so far

AddBag(b, t, n) == Put(b, t, Get(b, t, 0) + n)
RECURSIVE AddAll(_, _, _)
AddAll(b, ts, cnt) ==
    IF ts = {} THEN b
    ELSE LET t == CHOOSE t \in ts : TRUE IN AddAll(AddBag(b, t, cnt[t]), ts \ {t}, cnt)

BagOf(q) == [x \in Range(q) |-> Cardinality({i \in 1..Len(q) : q[i] = x})]
CatPk(p, q) == [t \in DOMAIN p \cup DOMAIN q |-> Get(p, t, <<>>) \o Get(q, t, <<>>)]

(* The cluster's own view of who is where: every client is known to the    *)
(* host that owns it; a membership operation on a remote client takes      *)
(* effect when the owning host applies it (its linearization point).       *)
MergedRooms(hs) ==
    LET nss == UNION {DOMAIN hs[h].rooms : h \in Hosts}
        rms(ns) == UNION {DOMAIN Get(hs[h].rooms, ns, <<>>) : h \in Hosts}
        mem(ns, r) == UNION {{<<x, Get(Get(hs[h].rooms, ns, <<>>), r, <<>>)[x]>> :
                                x \in DOMAIN Get(Get(hs[h].rooms, ns, <<>>), r, <<>>)} : h \in Hosts}
    IN  [ns \in nss |-> [r \in rms(ns) |->
            [x \in {p[1] : p \in mem(ns, r)} |-> (CHOOSE p \in mem(ns, r) : p[1] = x)[2]]]]
U(hs) == [rooms |-> MergedRooms(hs)]

AddressedNow(hs, msg) == {S!TOf(U(hs), x, msg.ns) : x \in RefAddressed(U(hs), msg)}

EmitGhost(hs, msg, raced) ==
    [k |-> "emit", msg |-> msg, addr0 |-> AddressedNow(hs, msg),
     elig |-> AddressedNow(hs, msg), deliv |-> <<>>, raced |-> raced]

GhostNext(c, g, a) ==
    LET d    == Do(c, a)
        \* the reference single server performs the operation at call time
        \* (an operation the cluster rejects with an exception - a callback without a
        \* single addressee, a callback from the write-only emitter - is no operation)
        rd   == IF d.res[1] # "exc" /\ (IsClientAct(a) \/ a.act \in {"Emit", "EnterRoom", "LeaveRoom", "CloseRoom", "Disconnect"})
                THEN S!Do([g.ref EXCEPT !.nextSid = c.hs[CHOOSE h \in Hosts : TRUE].nextSid], RefAct(a))
                ELSE S!M0(g.ref)
        ref2 == [rd.s EXCEPT !.cb = <<>>]
        \* 1. every in-flight emit: eligibility grows, races are noted
        fl1  == [i \in 1..Len(g.fl) |->
                    IF g.fl[i].k # "emit" THEN g.fl[i]
                    ELSE [g.fl[i] EXCEPT
                            !.elig = @ \cup AddressedNow(d.hs, g.fl[i].msg),
                            !.raced = @ \/ MembershipAct(a)]]
        \* 2. a Consume of an emit delivers
        idx  == c.pos[a.h] + 1
        fl2  == IF a.act = "Consume" /\ fl1[idx].k = "emit"
                THEN [fl1 EXCEPT ![idx].deliv = AddAll(@, DOMAIN SidsIn(d, c, fl1[idx].msg.ns), SidsIn(d, c, fl1[idx].msg.ns))]
                ELSE fl1
        \* 3. newly published messages
        racedNow == \E i \in 1..Len(c.chan) : MembershipMsg(c.chan[i])
        newg(m)  == IF m.method = "emit"
                    THEN LET e0 == EmitGhost(c.hs, m, racedNow)
                         IN  [e0 EXCEPT !.deliv = IF a.act = "Emit" THEN AddAll(<<>>, DOMAIN SidsIn(d, c, m.ns), SidsIn(d, c, m.ns)) ELSE <<>>]
                    ELSE [k |-> "x"]
        fl3  == fl2 \o [i \in 1..Len(d.pub) |-> newg(d.pub[i])]
        \* 4. what falls off the channel is judged
        k    == Len(fl3) - Len(d.chan)
        done == {fl3[i] : i \in 1..k}
        judge(e) ==
            IF e.k # "emit" THEN {}
            ELSE (IF \E t \in DOMAIN e.deliv : e.deliv[t] > 1 THEN {"delivered-twice"} ELSE {})
                 \cup (IF ~(DOMAIN e.deliv \subseteq e.elig) THEN {"delivered-to-never-addressed"} ELSE {})
                 \cup (IF ~e.raced /\ DOMAIN e.deliv # e.addr0 THEN {"not-exactly-the-addressed"} ELSE {})
        \* a message with nobody to wait for (single host, or consumed at once)
        bad2 == g.bad \cup UNION {judge(e) : e \in done}
        \* 5. Immediate mode: the operation in progress, as the single server did it
        isOp == a.act # "Consume"
        exp2 == IF isOp THEN [pk |-> StripIds(rd.pk), hc |-> rd.hc] ELSE g.exp
        got2 == IF isOp THEN [pk |-> StripIds(d.pk), hc |-> d.hc]
                ELSE [pk |-> CatPk(g.got.pk, StripIds(d.pk)), hc |-> g.got.hc \o d.hc]
    IN  [g EXCEPT !.ref = ref2, !.fl = SubSeq(fl3, k + 1, Len(fl3)), !.bad = bad2,
                  !.exp = exp2, !.got = got2]

----------------------------------------------------------------------------
Init == st = InitSt /\ gh = InitGh

Acts(c) == {Alphabet[i] : i \in {k \in 1..Len(Alphabet) : Enabled(c, Alphabet[k])}}

Next == \E a \in Acts(st) : st' = StOf(Do(st, a)) /\ gh' = GhostNext(st, gh, a)

Spec == Init /\ [][Next]_vars

----------------------------------------------------------------------------
(* Structural                                                              *)
TypeOK ==
    /\ \A h \in Hosts : st.pos[h] \in 0..Len(st.chan)
    \* (MaxChan bounds the operations; a listener turn on a forged `callback`
    \*  message may itself publish one more, bounded by the outstanding callbacks)
    /\ Len(st.chan) <= MaxChan + MaxSid * (MaxAck + 1)
    /\ Len(gh.fl) = Len(st.chan)
    /\ st.chan # <<>> => \E h \in Hosts : st.pos[h] = 0

(* C07 - delayed and immediate: at most once, only to the addressed,       *)
(* exactly the addressed when nothing raced                                *)
C07_Deliveries ==
    /\ gh.bad = {}
    /\ \A i \in 1..Len(gh.fl) : gh.fl[i].k = "emit" =>
          /\ \A t \in DOMAIN gh.fl[i].deliv : gh.fl[i].deliv[t] <= 1
          /\ DOMAIN gh.fl[i].deliv \subseteq gh.fl[i].elig

(* a client lives on exactly one host, and the cluster knows the same      *)
(* connections as the single server                                        *)
AllConn(c) == UNION {{<<ns, x, S!AllMembers(c.hs[h], ns)[x]>> : x \in DOMAIN S!AllMembers(c.hs[h], ns)} :
                        <<h, ns>> \in {<<h, ns>> \in Hosts \X NsAll : Has(c.hs[h].rooms, ns)}}
RefConn(r) == UNION {{<<ns, x, S!AllMembers(r, ns)[x]>> : x \in DOMAIN S!AllMembers(r, ns)} :
                        ns \in {ns \in NsAll : Has(r.rooms, ns)}}
AllRooms(c) == UNION {UNION {{<<ns, r, x>> : x \in DOMAIN c.hs[h].rooms[ns][r]} : r \in DOMAIN c.hs[h].rooms[ns]} :
                        <<h, ns>> \in {<<h, ns>> \in Hosts \X NsAll : Has(c.hs[h].rooms, ns)}}
RefRooms(r) == UNION {UNION {{<<ns, rm, x>> : x \in DOMAIN r.rooms[ns][rm]} : rm \in DOMAIN r.rooms[ns]} :
                        ns \in {ns \in NsAll : Has(r.rooms, ns)}}

(* C07 - immediate delivery: exact equivalence with the single server      *)
C07_SingleServerEquivalence ==
    (Immediate /\ Quiet(st)) =>
        /\ AllRooms(st) = RefRooms(gh.ref)          \* same memberships (and connections)
        /\ gh.got.pk = gh.exp.pk                     \* same packets to the same clients
        /\ BagOf(gh.got.hc) = BagOf(gh.exp.hc)       \* same handler runs (order across namespaces is the dict order of each manager)

(* memberships never leave the host that owns the client                   *)
C07_OwnerHoldsClient ==
    \A h \in Hosts : \A ns \in DOMAIN st.hs[h].rooms : \A r \in DOMAIN st.hs[h].rooms[ns] :
        \A x \in DOMAIN st.hs[h].rooms[ns][r] : HostOf[st.hs[h].rooms[ns][r][x]] = h

(* C07 - callbacks: invoked only on the issuing host; C15: a callback       *)
(* message addressed to another host completes nothing there                *)
C07_CallbackOnOrigin ==
    \A a \in Acts(st) :
        LET d == Do(st, a)
        IN  \A i \in 1..Len(d.cbs) :
              /\ ~IsPartial(d.cbs[i].tag)           \* the application's own callback, not the relay
              /\ a.act \in {"RxAck", "Consume"}
              \* with the acknowledging client's arguments
              /\ d.cbs[i].args = IF a.act = "RxAck" THEN a.args ELSE st.chan[st.pos[a.h] + 1].args
              /\ a.act = "Consume" => st.chan[st.pos[a.h] + 1].method = "callback"
                                      /\ st.chan[st.pos[a.h] + 1].host = a.h
              \* ... it was stored on THIS host by an emit issued here
              /\ \E x \in DOMAIN st.hs[a.h].cb : \E k \in DOMAIN st.hs[a.h].cb[x].out :
                    st.hs[a.h].cb[x].out[k] = d.cbs[i].tag

(* C15 - nothing on the channel stops the listener or is re-applied        *)
C15_ListenerAlive == \A h \in Hosts : st.alive[h]

C15_EchoAndJunkChangeNothing ==
    \A a \in Acts(st) : a.act = "Consume" =>
        LET msg == st.chan[st.pos[a.h] + 1]
            d   == Do(st, a)
        IN  /\ (msg.method \in {"junk", "fault"} \/ (msg.method # "callback" /\ msg.host = a.h)
                \/ (msg.method = "callback" /\ msg.host # a.h)) =>
                  /\ d.hs = st.hs /\ d.pk = <<>> /\ d.hc = <<>> /\ d.cbs = <<>>
            /\ d.pos[a.h] + (Len(st.chan) + Len(d.pub) - Len(d.chan)) = st.pos[a.h] + 1     \* it moved on
            /\ d.alive = st.alive
=============================================================================
