--------------------------- MODULE SioClientGraph ---------------------------
(* G2 for SioClient: see SioServerGraph.tla for the method.                *)
EXTENDS SioClient, Json, IOUtils

G == JsonDeserialize(IOEnv.GRAPH_FILE)
WithGhosts == IOEnv.WITH_GHOSTS = "1"

VARIABLE node
gvars == <<st, gh, node>>

NodeSt(n) ==
    LET j == G.nodes[n]
    IN  [ eio |-> j.eio, connected |-> j.connected, namespaces |-> j.namespaces,
          reqNs |-> j.reqNs, cb |-> j.cb, binbuf |-> j.binbuf, hasSid |-> j.hasSid,
          nextSid |-> j.nextSid, srvReq |-> ToSet(j.srvReq), srvAcc |-> ToSet(j.srvAcc), srvAns |-> ToSet(j.srvAns),
          task |-> j.task ]

Chk(b, msg) == b \/ (PrintT(msg) /\ FALSE)

EdgeOK(i) ==
    LET e == G.edges[i]
        d == Do(st, e.a)
        n == NodeSt(e.dst)
    IN  /\ Chk(Enabled(st, e.a), <<"EDGE_REJECTED", i, "not-enabled-in-spec">>)
        /\ \A f \in DOMAIN n : Chk(d.s[f] = n[f], <<"EDGE_REJECTED", i, "state", f, "spec", d.s[f], "impl", n[f]>>)
        /\ Chk(d.sent = e.out.sent, <<"EDGE_REJECTED", i, "packets", "spec", d.sent, "impl", e.out.sent>>)
        /\ Chk(d.hc = e.out.hc, <<"EDGE_REJECTED", i, "handler-calls", "spec", d.hc, "impl", e.out.hc>>)
        /\ Chk(d.cbs = e.out.cbs, <<"EDGE_REJECTED", i, "callbacks", "spec", d.cbs, "impl", e.out.cbs>>)
        /\ Chk(d.res = e.out.res, <<"EDGE_REJECTED", i, "result", "spec", d.res, "impl", e.out.res>>)

AllEdgesOK == \A i \in ToSet(G.out[node]) : EdgeOK(i)

AlphabetComplete ==
    Chk({G.edges[i].ai : i \in ToSet(G.out[node])}
            = {k \in 1..Len(Alphabet) : Enabled(st, Alphabet[k])},
        <<"ALPHABET_MISMATCH", node>>)

GInit == node = 1 /\ st = NodeSt(1) /\ gh = InitGh /\ Chk(NodeSt(1) = InitSt, <<"INIT_MISMATCH", NodeSt(1), InitSt>>)

GNext == \E i \in ToSet(G.out[node]) :
            LET e == G.edges[i]
            IN  /\ node' = e.dst
                /\ st' = NodeSt(e.dst)
                /\ gh' = IF WithGhosts THEN GhostNext(st, gh, e.a) ELSE gh
=============================================================================
