---------------------------- MODULE PacketCases ----------------------------
(***************************************************************************)
(* Binding of Packet.tla to socketio.packet.Packet.                        *)
(*                                                                         *)
(* Dump     (first run) TLC writes its Universe as JSON; the harness turns *)
(*          every packet into real Python values and runs the REAL codec.  *)
(* Cases    (second run) every recorded case is judged here:               *)
(*   enc    Packet(...).encode() must be exactly RefFrame(p) (text frame   *)
(*          character by character, attachments in order), or raise        *)
(*          exactly when byte strings sit in a packet type that cannot     *)
(*          carry them;                                                    *)
(*   dec    the frame produced by the independent specification-derived    *)
(*          codec (harness/refcodec.py - itself required to equal          *)
(*          RefFrame(p) here) is handed to Packet(encoded_packet=...) and  *)
(*          its attachments to add_attachment() one by one: type,          *)
(*          namespace ("/" implied), id and payload must be Decoded(p) and *)
(*          completion must be reported exactly on the last attachment;    *)
(*   scan   arbitrary ASCII frames (mutations of valid ones): the header   *)
(*          reading of Packet.decode must be Scan(f), including which      *)
(*          frames are refused.                                            *)
(* The harness adds packets from generators far wider than the Universe    *)
(* (unicode incl. non-BMP and control characters, floats, 64-bit and       *)
(* 100-digit numbers, deep nesting, many attachments).                     *)
(***************************************************************************)
EXTENDS Packet, Json, IOUtils, SequencesExt

Dump == JsonSerialize(IOEnv.OUT_FILE, SetToSeq(Universe))

Cases == JsonDeserialize(IOEnv.CASES_FILE)

Chk(b, msg) == b \/ (PrintT(msg) /\ FALSE)

EncOK(i) ==
    LET c == Cases[i] f == RefFrame(c.p)
    IN  IF WireType(c.p) = 99
        THEN Chk(c.exc = "ValueError", <<"CASE_REJECTED", i, "enc", "byte strings accepted in packet type", c.p.ty, c.exc>>)
        ELSE /\ Chk(c.exc = "", <<"CASE_REJECTED", i, "enc", "raised", c.exc>>)
             /\ Chk(c.text = f.text, <<"CASE_REJECTED", i, "enc", "text frame", "spec", f.text, "impl", c.text>>)
             /\ Chk(c.atts = f.atts, <<"CASE_REJECTED", i, "enc", "attachments", "spec", f.atts, "impl", c.atts>>)
             \* encoding is a function of the packet: a second encode() gives the same frames
             \* and the payload object the application handed over is left as it was
             /\ Chk(c.text2 = f.text /\ c.atts2 = f.atts, <<"CASE_REJECTED", i, "enc", "second encode() differs", "spec", f.text, "impl", c.text2>>)
             /\ Chk(c.intact, <<"CASE_REJECTED", i, "enc", "encode() modified the payload it was given">>)

DecOK(i) ==
    LET c == Cases[i] f == RefFrame(c.p) d == Decoded(c.p)
        n == Len(f.atts)
    IN  /\ Chk(c.ref_text = f.text /\ c.ref_atts = f.atts,
               <<"CASE_REJECTED", i, "dec", "the reference codec is not RefFrame", "spec", f.text, "ref", c.ref_text>>)
        /\ Chk(c.exc = "", <<"CASE_REJECTED", i, "dec", "raised", c.exc, f.text>>)
        /\ Chk(c.ty = d.ty, <<"CASE_REJECTED", i, "dec", "type", d.ty, c.ty>>)
        /\ Chk((IF c.ns = NONE THEN <<"/">> ELSE c.ns) = d.ns, <<"CASE_REJECTED", i, "dec", "namespace", d.ns, c.ns>>)
        /\ Chk(c.id = d.id, <<"CASE_REJECTED", i, "dec", "id", d.id, c.id>>)
        /\ Chk(c.data = d.data, <<"CASE_REJECTED", i, "dec", "payload", "sent", d.data, "decoded", c.data>>)
        /\ Chk(c.flags = [j \in 1..n |-> j = n], <<"CASE_REJECTED", i, "dec", "completion flags", c.flags>>)
        /\ Chk(c.count = n, <<"CASE_REJECTED", i, "dec", "attachments announced", n, c.count>>)

(* the implementation reports numbers, not digit runs: leading zeros go     *)
RECURSIVE StripZeros(_)
StripZeros(q) == IF Len(q) > 1 /\ q[1] = "0" /\ IsDigitSeq(q) THEN StripZeros(Tail(q)) ELSE q

ScanOK(i) ==
    LET c == Cases[i] s == Scan(c.f)
    IN  IF ~s.ok THEN Chk(c.exc # "", <<"CASE_REJECTED", i, "scan", "frame accepted, spec refuses it:", s.why, c.f>>)
        ELSE c.exc = "" =>
             /\ Chk(c.ty = s.ty, <<"CASE_REJECTED", i, "scan", "type", s.ty, c.ty, c.f>>)
             /\ Chk(c.count = StripZeros(s.cnt), <<"CASE_REJECTED", i, "scan", "count", s.cnt, c.count, c.f>>)
             /\ Chk(c.ns = s.ns, <<"CASE_REJECTED", i, "scan", "namespace", s.ns, c.ns, c.f>>)
             /\ Chk(c.id = StripZeros(s.id), <<"CASE_REJECTED", i, "scan", "id", s.id, c.id, c.f>>)

CaseOK(i) == CASE Cases[i].kind = "enc" -> EncOK(i)
               [] Cases[i].kind = "dec" -> DecOK(i)
               [] Cases[i].kind = "scan" -> ScanOK(i)

AllCasesOK == \A i \in 1..Len(Cases) : CaseOK(i)

Covered ==
    /\ Universe \subseteq {Cases[i].p : i \in {k \in 1..Len(Cases) : Cases[k].kind = "enc"}}
    /\ {p \in Universe : WellFormed(p)} \subseteq {Cases[i].p : i \in {k \in 1..Len(Cases) : Cases[k].kind = "dec"}}
=============================================================================
