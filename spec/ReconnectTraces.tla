-------------------------- MODULE ReconnectTraces --------------------------
(***************************************************************************)
(* Recorded executions of the real Client / AsyncClient reconnection logic *)
(* (a forest: one path per scenario = parameter grid point x cause of loss *)
(* x failure pattern x abort position) replayed against Reconnect.tla:     *)
(* every recorded event must be enabled in the machine's current state     *)
(* (EvOK), and the invariants are evaluated after every event.             *)
(***************************************************************************)
EXTENDS Reconnect, Json, IOUtils

G == JsonDeserialize(IOEnv.GRAPH_FILE)
VARIABLE node
ToSet(q) == {q[i] : i \in 1..Len(q)}
Chk(b, msg) == b \/ (PrintT(msg) /\ FALSE)

AllEventsOK ==
    \A i \in ToSet(G.out[node]) :
        Chk(EvOK(st, G.edges[i].e), <<"EVENT_REJECTED", i, G.edges[i].e, "in", st>>)

(* witness of known finding D8: a loss that should have started an effort  *)
D8_NotObservable ==
    \A i \in ToSet(G.out[node]) :
        LET e == G.edges[i].e
        IN  ~(e.ev = "Lose" /\ e.cause = "transport_error" /\ st.cfg.reconnection /\ st.stuck)

GInit == node = 1 /\ st = InitSt
GNext == \E i \in ToSet(G.out[node]) :
            node' = G.edges[i].dst /\ st' = Apply(st, G.edges[i].e)
=============================================================================
