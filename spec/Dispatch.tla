------------------------------ MODULE Dispatch ------------------------------
(***************************************************************************)
(* C13 - handler resolution.  A pure function, used the MongoDB way: the   *)
(* documented precedence is written declaratively (DocResolve), the two    *)
(* resolvers of the code are transcribed branch by branch (SrvResolve from *)
(* base_server.py:223-262 + server.py:611-629, CliResolve from             *)
(* base_client.py:222-262 + client.py:435-452), TLC proves them equal on   *)
(* the complete configuration lattice, and every lattice point is also an  *)
(* implementation test whose expected outcome is DocResolve's value        *)
(* (DispatchCases.tla).                                                    *)
(*                                                                         *)
(* A lattice point p says which of the six kinds of target are registered: *)
(*   hNE  handlers[ns][event]      hNS  handlers[ns]["*"]                  *)
(*   hSE  handlers["*"][event]     hSS  handlers["*"]["*"]                 *)
(*   cN   class-based namespace for ns       cS  class-based namespace "*" *)
(* plus  reserved (the event is connect / disconnect / connect_error),     *)
(*       other    (ns has some unrelated handler registered),              *)
(*       method   (the class-based namespaces define on_<event>).          *)
(***************************************************************************)
EXTENDS Naturals, Sequences, FiniteSets, TLC

Lattice ==
    [hNE : BOOLEAN, hNS : BOOLEAN, hSE : BOOLEAN, hSS : BOOLEAN,
     cN : BOOLEAN, cS : BOOLEAN, reserved : BOOLEAN, other : BOOLEAN,
     method : BOOLEAN]

None == [target |-> "none", prefix |-> <<>>]
T(t, pre) == [target |-> t, prefix |-> pre]

(* The documented order (docs/server.rst "Catch-All ..."; base_server.on): *)
(* first present target wins; catch-all EVENT handlers never get reserved  *)
(* events; a class-based namespace without on_<event> drops the event.     *)
DocResolve(p) ==
    IF p.hNE THEN T("hNE", <<>>)
    ELSE IF p.hNS /\ ~p.reserved THEN T("hNS", <<"EV">>)
    ELSE IF p.hSE THEN T("hSE", <<"NS">>)
    ELSE IF p.hSS /\ ~p.reserved THEN T("hSS", <<"EV", "NS">>)
    ELSE IF p.cN THEN (IF p.method THEN T("cN", <<>>) ELSE None)
    ELSE IF p.cS THEN (IF p.method THEN T("cS", <<"NS">>) ELSE None)
    ELSE None

(* --- the server's code shape ------------------------------------------ *)
NsInHandlers(p)   == p.hNE \/ p.hNS \/ p.other      \* `namespace in self.handlers`
StarInHandlers(p) == p.hSE \/ p.hSS                  \* `'*' in self.handlers`

SrvEventHandler(p) ==           \* base_server.py _get_event_handler
    LET h1 == IF NsInHandlers(p)
              THEN IF p.hNE THEN T("hNE", <<>>)
                   ELSE IF ~p.reserved /\ p.hNS THEN T("hNS", <<"EV">>)
                   ELSE None
              ELSE None
    IN  IF h1 = None /\ StarInHandlers(p)           \* `if handler is None and '*' in self.handlers`
        THEN IF p.hSE THEN T("hSE", <<"NS">>)
             ELSE IF ~p.reserved /\ p.hSS THEN T("hSS", <<"EV", "NS">>)
             ELSE None
        ELSE h1

NamespaceHandler(p) ==          \* _get_namespace_handler + Namespace.trigger_event
    IF p.cN THEN (IF p.method THEN T("cN", <<>>) ELSE None)
    ELSE IF p.cS THEN (IF p.method THEN T("cS", <<"NS">>) ELSE None)
    ELSE None

SrvResolve(p) ==                \* server.py _trigger_event
    LET h == SrvEventHandler(p) IN IF h # None THEN h ELSE NamespaceHandler(p)

(* --- the client's code shape ------------------------------------------ *)
CliEventHandler(p) ==           \* base_client.py _get_event_handler
    LET h1 == IF NsInHandlers(p)
              THEN IF p.hNE THEN T("hNE", <<>>)
                   ELSE IF ~p.reserved /\ p.hNS THEN T("hNS", <<"EV">>)
                   ELSE None
              ELSE None
    IN  IF h1 = None /\ StarInHandlers(p)           \* `if handler is None and '*' in self.handlers`
        THEN IF p.hSE THEN T("hSE", <<"NS">>)
             ELSE IF ~p.reserved /\ p.hSS THEN T("hSS", <<"EV", "NS">>)
             ELSE None
        ELSE h1

CliResolve(p) ==
    LET h == CliEventHandler(p) IN IF h # None THEN h ELSE NamespaceHandler(p)

(* --- what TLC proves on the whole lattice ----------------------------- *)
SrvIsDoc == \A p \in Lattice : SrvResolve(p) = DocResolve(p)
CliIsDoc == \A p \in Lattice : CliResolve(p) = DocResolve(p)
FunctionBeatsClass ==
    \A p \in Lattice :
        (p.hNE \/ (p.hNS /\ ~p.reserved) \/ p.hSE \/ (p.hSS /\ ~p.reserved))
            => DocResolve(p).target \in {"hNE", "hNS", "hSE", "hSS"}
ReservedNeverCatchAllEvent ==
    \A p \in Lattice : p.reserved => DocResolve(p).target \notin {"hNS", "hSS"}
NoTargetDropped ==
    \A p \in Lattice :
        ~(p.hNE \/ p.hNS \/ p.hSE \/ p.hSS \/ p.cN \/ p.cS) => DocResolve(p) = None

(* counterexamples, for the check's report *)
SrvMismatch == {p \in Lattice : SrvResolve(p) # DocResolve(p)}
CliMismatch == {p \in Lattice : CliResolve(p) # DocResolve(p)}

(* a one-state behaviour so that TLC reports each clause by name *)
VARIABLE tick
Init == tick = 0
Next == tick' = tick
=============================================================================
