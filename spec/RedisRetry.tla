----------------------------- MODULE RedisRetry -----------------------------
(***************************************************************************)
(* C15 (broker failures): the retry loops of the bundled Redis backends,   *)
(* redis_manager.py / async_redis_manager.py:                              *)
(*   _redis_listen_with_retries  - the listener never gives up: after a    *)
(*       failure it sleeps retry_sleep (1, doubling, capped at 60, back to *)
(*       1 after a successful reconnection + subscription), reconnects,    *)
(*       subscribes again on the NEW connection and goes on listening;     *)
(*       every message the broker hands over reaches the consumer, once,   *)
(*       in order;                                                         *)
(*   _publish - one retry on a fresh connection, then give up WITHOUT      *)
(*       raising into the application.                                     *)
(* Written as guards over the events a recorded execution consists of      *)
(* (fake redis client with scripted failures, sleep observed through the   *)
(* module attribute); RedisRetryTraces.tla replays recorded executions.    *)
(***************************************************************************)
EXTENDS Naturals, Sequences, FiniteSets, TLC

CONSTANT MaxSteps
VARIABLE st
vars == <<st>>

Min(a, b) == IF a < b THEN a ELSE b

InitSt == [ phase |-> "start",   \* start | subscribed | listening | failed | slept | connected
            sleep |-> 1,         \* what the next retry sleeps
            connect |-> FALSE,   \* the loop will reconnect before listening again
            gen   |-> 0,         \* generation of the connection in use (0: the constructor's)
            q     |-> <<>>,      \* produced by the broker, not yet handed to the consumer
            pub   |-> "idle",    \* idle | try1 | fail1 | try2 | done | gaveup
            steps |-> 0 ]

EvOK(s, e) ==
    CASE e.ev = "Subscribe" ->
            \/ s.phase = "start"                                  \* _listen(): on the constructor's connection
            \/ s.phase = "connected" /\ e.gen > s.gen             \* the retry loop: on the NEW connection
      [] e.ev = "Listen" -> s.phase = "subscribed" /\ e.gen = s.gen     \* on the connection subscribed last
      [] e.ev = "Produced" -> s.phase = "listening"
      [] e.ev = "Yield" -> s.q # <<>> /\ e.m = Head(s.q)          \* once each, in order
      [] e.ev = "ListenError" -> s.phase = "listening"
      [] e.ev = "ListenEnded" -> s.phase = "listening"
      [] e.ev = "Sleep" -> s.phase = "failed" /\ e.d = s.sleep    \* 1, 2, 4, ... capped at 60
      [] e.ev = "Connect" ->
            \/ s.pub = "idle" /\ s.phase = "slept" /\ s.connect
            \/ s.pub = "fail1"                                    \* _publish: one retry on a fresh connection
      [] e.ev = "PubStart" -> s.pub \in {"idle", "done", "gaveup"}
      [] e.ev = "Publish" -> s.pub \in {"try1", "try2"} /\ (s.pub = "try2" => e.gen > s.gen)
      [] e.ev = "PubEnd" -> s.pub \in {"done", "gaveup"} /\ e.how = "returned"   \* never raises into the application
      [] e.ev = "End" -> s.q = <<>>                               \* nothing the broker produced was lost
      [] OTHER -> FALSE

Apply(s, e) ==
    LET s1 == [s EXCEPT !.steps = @ + 1] IN
    CASE e.ev = "Subscribe" ->
            IF s.phase = "start" THEN [s1 EXCEPT !.phase = IF e.ok THEN "subscribed" ELSE "start", !.gen = e.gen]
            ELSE IF e.ok THEN [s1 EXCEPT !.phase = "subscribed", !.sleep = 1, !.gen = e.gen]
            ELSE [s1 EXCEPT !.phase = "failed"]
      [] e.ev = "Listen" -> [s1 EXCEPT !.phase = "listening"]
      [] e.ev = "Produced" -> [s1 EXCEPT !.q = Append(@, e.m)]
      [] e.ev = "Yield" -> [s1 EXCEPT !.q = Tail(@)]
      [] e.ev = "ListenError" -> [s1 EXCEPT !.phase = "failed"]
      [] e.ev = "ListenEnded" -> [s1 EXCEPT !.phase = IF s.connect THEN "slept" ELSE "subscribed"]
      [] e.ev = "Sleep" -> [s1 EXCEPT !.phase = "slept", !.connect = TRUE, !.sleep = Min(2 * e.d, 60)]
      [] e.ev = "Connect" ->
            IF s.pub = "fail1" THEN [s1 EXCEPT !.pub = IF e.ok THEN "try2" ELSE "gaveup"]
            ELSE [s1 EXCEPT !.phase = IF e.ok THEN "connected" ELSE "failed"]
      [] e.ev = "PubStart" -> [s1 EXCEPT !.pub = "try1"]
      [] e.ev = "Publish" ->
            IF e.ok THEN [s1 EXCEPT !.pub = "done", !.gen = IF s.pub = "try2" THEN e.gen ELSE @]
            ELSE [s1 EXCEPT !.pub = IF s.pub = "try1" THEN "fail1" ELSE "gaveup"]
      [] e.ev = "PubEnd" -> [s1 EXCEPT !.pub = "idle"]
      [] OTHER -> s1

(* ---- the machine on its own ------------------------------------------- *)
Events(s) ==
    {[ev |-> "Subscribe", ok |-> b, gen |-> s.gen + 1] : b \in BOOLEAN}
    \cup {[ev |-> "Listen", gen |-> s.gen]}
    \cup {[ev |-> "Produced", m |-> "m"], [ev |-> "Yield", m |-> "m"], [ev |-> "ListenError"], [ev |-> "ListenEnded"]}
    \cup {[ev |-> "Sleep", d |-> s.sleep]}
    \cup {[ev |-> "Connect", ok |-> b] : b \in BOOLEAN}

Init == st = InitSt
Next == st.steps < MaxSteps /\ \E e \in Events(st) : EvOK(st, e) /\ st' = Apply(st, e)
Spec == Init /\ [][Next]_vars

SleepIsBoundedBackoff == st.sleep \in {1, 2, 4, 8, 16, 32, 60}
NeverGivesUp ==      \* whatever has failed, the listener has a next step
    st.steps < MaxSteps => \E e \in Events(st) : EvOK(st, e)
ResetAfterRecovery == st.phase = "subscribed" /\ st.connect => st.sleep = 1 \/ st.steps = 0
=============================================================================
