----------------------------- MODULE E2ETraces -----------------------------
(***************************************************************************)
(* Recorded executions of a real Client joined to a real Server (and       *)
(* AsyncClient / AsyncServer) by an in-memory pipe that passes every       *)
(* engine.io MESSAGE through engine.io's own packet codec (text/base64 or  *)
(* binary framing), default and msgpack serializers: a forest, one path    *)
(* per scenario, replayed against E2E.tla.                                 *)
(***************************************************************************)
EXTENDS E2E, Json, IOUtils

G == JsonDeserialize(IOEnv.GRAPH_FILE)
VARIABLE node
ToSet(q) == {q[i] : i \in 1..Len(q)}
Chk(b, msg) == b \/ (PrintT(msg) /\ FALSE)

AllEventsOK ==
    \A i \in ToSet(G.out[node]) :
        Chk(EvOK(st, G.edges[i].e), <<"EVENT_REJECTED", i, G.edges[i].e, "in", st>>)

GInit == node = 1 /\ st = InitSt
GNext == \E i \in ToSet(G.out[node]) :
            node' = G.edges[i].dst /\ st' = Apply(st, G.edges[i].e)
=============================================================================
