---------------------------- MODULE AdminCases ----------------------------
(***************************************************************************)
(* Binding of Admin!Accept to the code: for every (credential             *)
(* configuration, payload) pair the harness instrumented a REAL Server /   *)
(* AsyncServer with that configuration, sent a real CONNECT frame for the  *)
(* admin namespace carrying the payload, and recorded whether a CONNECT or *)
(* a CONNECT_ERROR came back, what the error said, whether the client      *)
(* gained membership and whether anything else on the server changed.      *)
(* Configuration and payload travel as VALUES (generic encoding of the     *)
(* Python objects actually used: dicts as functions, scalars tagged with   *)
(* their type), so TLC evaluates Accept on what was really sent; the       *)
(* payloads of the specification's own set must all be among the cases,    *)
(* and the harness adds mutations of the credentials beyond that set.      *)
(***************************************************************************)
EXTENDS Admin, Json, IOUtils

Cases == JsonDeserialize(IOEnv.CASES_FILE)

Chk(b, msg) == b \/ (PrintT(msg) /\ FALSE)

CaseOK(i) ==
    LET c   == Cases[i]
        acc == Accept(c.auth, c.payload)
    IN  /\ Chk(c.auth \in AuthCfgs, <<"CASE_REJECTED", i, "harness configuration is not one of the specification's", c.auth>>)
        /\ Chk(/\ c.accepted = acc
               /\ c.member = acc
               /\ c.error = (IF acc THEN "" ELSE "authentication failed")
               /\ c.others = "untouched",
               <<"CASE_REJECTED", i, c.side, c.auth.k, c.payload, "expected-accept", acc,
                 "observed", [accepted |-> c.accepted, member |-> c.member, error |-> c.error, others |-> c.others]>>)

AllCasesOK == \A i \in 1..Len(Cases) : CaseOK(i)

Covered ==
    \A s \in {Cases[i].side : i \in 1..Len(Cases)} :
      \* (a coroutine predicate exists on the asyncio server only)
      \A a \in {x \in AuthCfgs : x.k # "apred" \/ s = "AsyncServer"} :
        Payloads \subseteq {Cases[i].payload : i \in {k \in 1..Len(Cases) : Cases[k].side = s /\ Cases[k].auth = a}}
=============================================================================
