------------------------------ MODULE SioServer ------------------------------
(***************************************************************************)
(* The Socket.IO server as a state machine: BaseManager + Manager /        *)
(* AsyncManager (rooms, pending disconnects, callbacks) and Server /       *)
(* AsyncServer packet handling (environ, binary reassembly buffer, user    *)
(* sessions kept on the engine.io socket).                                 *)
(*                                                                         *)
(* One action per public call / per incoming engine.io frame / per         *)
(* transport event.  Every action is TOTAL (it says what happens in every  *)
(* state, including "raises KeyError", "ignored", "CONNECT_ERROR") and     *)
(* DETERMINISTIC given its arguments, so that the transition graph of the  *)
(* real classes can be compared with it edge by edge (XGraph / G2) and     *)
(* state count by state count (G3).                                        *)
(*                                                                         *)
(* The state is split into                                                 *)
(*   st - the CORE: exactly what the harness projection reads off the real *)
(*        objects (manager.rooms, pending_disconnect, callbacks,           *)
(*        server.environ, _binary_packet, engine.io sessions ...);         *)
(*   gh - GHOSTS: history, written the way the property STATEMENTS talk    *)
(*        (who is connected, which rooms a client entered and has not      *)
(*        left, what a session should contain, how often handlers ran).    *)
(* Ghosts never feed the core.  An action's OUTPUTS (packets per           *)
(* transport, handler invocations, callback invocations, result or         *)
(* exception) are an operator of the pre-state, Do(st, a), not variables.  *)
(*                                                                         *)
(* The core is written in the shape of the code: a little machine record   *)
(* m = [s, pk, hc, cbs, res, exc] is threaded through steps that mirror    *)
(* the statements of server.py / base_manager.py (line references are to   *)
(* src/socketio at the pinned commit).                                     *)
(***************************************************************************)
EXTENDS Naturals, Integers, Sequences, FiniteSets, TLC

CONSTANTS
    Transports,     \* set of transport names
    NsH,            \* namespaces that have application handlers
    NsListed,       \* namespaces named in the server's `namespaces` option
    NsStar,         \* TRUE iff namespaces = "*"
    HKind,          \* "fn" (function handlers) or "class" (class-based namespaces)
    AlwaysConnect,  \* the always_connect option
    AsyncHandlers,  \* the async_handlers option (background work joined)
    MaxSid,         \* budget: session ids ever allocated
    MaxAck,         \* budget: server-initiated ack ids per client
    Alphabet,       \* sequence of action records (generated, see harness)
    Dev             \* known deviations of the code from the intended design that
                    \* are modelled (labels of /verif/known_findings.json); {} = the design

VARIABLES st, gh
vars == <<st, gh>>

----------------------------------------------------------------------------
(* Small function helpers.  A Python dict is a TLA+ function; the empty    *)
(* dict is <<>>.                                                           *)
Put(f, k, v) == [x \in DOMAIN f \cup {k} |-> IF x = k THEN v ELSE f[x]]
Del(f, k)    == [x \in DOMAIN f \ {k} |-> f[x]]
Has(f, k)    == k \in DOMAIN f
Get(f, k, d) == IF k \in DOMAIN f THEN f[k] ELSE d
Range(f)     == {f[x] : x \in DOMAIN f}
Empty(f)     == DOMAIN f = {}
SidName(i)   == "s" \o ToString(i)
RemoveFirst(q, x) ==
    IF \E i \in 1..Len(q) : q[i] = x
    THEN LET i == CHOOSE i \in 1..Len(q) : q[i] = x /\ \A j \in 1..(i-1) : q[j] # x
         IN  SubSeq(q, 1, i-1) \o SubSeq(q, i+1, Len(q))
    ELSE q

----------------------------------------------------------------------------
(* Core state                                                              *)
InitSt ==
    [ eio       |-> [t \in Transports |-> "none"],  \* none -> open -> closed
      environ   |-> {},        \* transports with a stored request environment
      nextSid   |-> 1,         \* session ids are s1, s2, ... by first appearance
      rooms     |-> <<>>,      \* rooms[ns][room][sid] = transport   (base_manager.py:14)
      nsOrder   |-> <<>>,      \* insertion order of rooms' namespace keys
      pending   |-> <<>>,      \* pending[ns] = list of sids being disconnected
      cb        |-> <<>>,      \* cb[sid] = [next |-> id the counter yields next, out |-> [ToString(id) |-> callback tag]]
      binbuf    |-> <<>>,      \* binbuf[t] = partially received binary packet
      sess      |-> <<>>,      \* sess[t][ns] = user session token
      residue   |-> <<>>,      \* anything else reachable from the server that names a departed client
      raiseDisc |-> {} ]       \* environment: namespaces whose disconnect handler raises

Pkt(ty, ns, id, data) == [ty |-> ty, ns |-> ns, id |-> id, data |-> data]

M0(s) == [s |-> s, pk |-> <<>>, hc |-> <<>>, cbs |-> <<>>, res |-> <<"ok">>, set |-> {}, exc |-> "",
          bg |-> 0]      \* handlers handed to a background task (async_handlers) instead of run in line

(* eio.send(): a packet for a transport that is not open is dropped        *)
(* (engineio server.py send_packet: "Cannot send to sid").                 *)
Send(m, t, p) ==
    IF m.exc # "" \/ t = "none" \/ m.s.eio[t] # "open" THEN m
    ELSE [m EXCEPT !.pk = Put(@, t, Append(Get(@, t, <<>>), p))]

Raise(m, cls) == IF m.exc # "" THEN m ELSE [m EXCEPT !.exc = cls]

----------------------------------------------------------------------------
(* base_manager.py                                                         *)
EnterRooms(rooms, ns, r, sid, t) ==
    LET N == Get(rooms, ns, <<>>)
    IN  Put(rooms, ns, Put(N, r, Put(Get(N, r, <<>>), sid, t)))

(* basic_leave_room: delete the member, then the empty room, then the      *)
(* empty namespace (base_manager.py:122-130)                               *)
LeaveRooms(rooms, ns, r, sid) ==
    IF ~Has(rooms, ns) \/ ~Has(rooms[ns], r) \/ ~Has(rooms[ns][r], sid) THEN rooms
    ELSE LET R2 == Del(rooms[ns][r], sid)
             N2 == IF Empty(R2) THEN Del(rooms[ns], r) ELSE Put(rooms[ns], r, R2)
         IN  IF Empty(N2) THEN Del(rooms, ns) ELSE Put(rooms, ns, N2)

SyncOrder(s, rooms2) ==   \* keep nsOrder = insertion order of rooms' keys
    LET kept == SelectSeq(s.nsOrder, LAMBDA n : Has(rooms2, n))
        new  == DOMAIN rooms2 \ Range(kept)
    IN  [s EXCEPT !.rooms = rooms2,
                  !.nsOrder = IF new = {} THEN kept ELSE Append(kept, CHOOSE n \in new : TRUE)]

AllMembers(s, ns) == Get(Get(s.rooms, ns, <<>>), "None", <<>>)

IsPending(s, sid, ns) == Has(s.pending, ns) /\ sid \in Range(s.pending[ns])

(* is_connected (base_manager.py:53-62)                                    *)
IsConnected(s, sid, ns) == ~IsPending(s, sid, ns) /\ Has(AllMembers(s, ns), sid)

(* sid_from_eio_sid (base_manager.py:64) : "none" when there is none       *)
SidFromT(s, t, ns) ==
    LET A == AllMembers(s, ns)
    IN  IF \E x \in DOMAIN A : A[x] = t THEN CHOOSE x \in DOMAIN A : A[x] = t ELSE "none"

(* eio_sid_from_sid (base_manager.py:70)                                   *)
TOf(s, sid, ns) == Get(AllMembers(s, ns), sid, "none")

(* pre_disconnect (base_manager.py:74-84)                                  *)
PreDisconnect(s, sid, ns) ==
    [s EXCEPT !.pending = Put(@, ns, Append(Get(@, ns, <<>>), sid))]

(* basic_disconnect (base_manager.py:86-101)                               *)
RECURSIVE LeaveAll(_, _, _, _)
LeaveAll(rooms, ns, rs, sid) ==
    IF rs = {} THEN rooms
    ELSE LET r == CHOOSE r \in rs : TRUE
         IN  LeaveAll(LeaveRooms(rooms, ns, r, sid), ns, rs \ {r}, sid)

(* Intended design: the user session of (client, namespace) is destroyed    *)
(* when that connection ends.  Known finding D6: the code keeps it on the  *)
(* engine.io socket (keyed by namespace) until the transport goes away.    *)
DropSession(s, sid, ns) ==
    LET t == TOf(s, sid, ns)
    IN  IF "D6" \in Dev \/ t = "none" \/ ~Has(s.sess, t) THEN s
        ELSE LET S2 == Del(s.sess[t], ns)
             IN  [s EXCEPT !.sess = IF Empty(S2) THEN Del(@, t) ELSE Put(@, t, S2)]

BasicDisconnect(s0, sid, ns) ==
    LET s == DropSession(s0, sid, ns) IN
    IF ~Has(s.rooms, ns) THEN s
    ELSE LET mine == {r \in DOMAIN s.rooms[ns] : Has(s.rooms[ns][r], sid)}
             s1 == SyncOrder(s, LeaveAll(s.rooms, ns, mine, sid))
             s2 == [s1 EXCEPT !.cb = Del(@, sid)]
         IN  IF IsPending(s2, sid, ns)
             THEN LET q == RemoveFirst(s2.pending[ns], sid)
                  IN  [s2 EXCEPT !.pending = IF q = <<>> THEN Del(@, ns) ELSE Put(@, ns, q)]
             ELSE s2

(* get_participants (base_manager.py:31-40): sids addressed by `to`        *)
Participants(s, ns, toKind, to) ==
    LET N == Get(s.rooms, ns, <<>>)
    IN  IF toKind = "none" THEN DOMAIN Get(N, "None", <<>>)
        ELSE IF toKind = "one" THEN DOMAIN Get(N, to[1], <<>>)
        ELSE UNION {DOMAIN Get(N, to[i], <<>>) : i \in 1..Len(to)}

----------------------------------------------------------------------------
(* Application handlers of the harness (what the adapter registers)        *)
Served(ns) == ns \in NsH \/ NsStar \/ ns \in NsListed

AuthBehaviour(auth) ==
    CASE auth = "auth:false" -> "false"
      [] auth = "auth:ref0"  -> "ref0"
      [] auth = "auth:ref1"  -> "ref1"
      [] auth = "auth:ref2"  -> "ref2"
      [] auth = "auth:ref3"  -> "ref3"
      [] auth = "auth:raise" -> "raise"
      \* the client sent no auth payload at all and the handler refuses all the same
      [] auth = "absent:ref2"  -> "ref2"
      [] auth = "absent:false" -> "false"
      [] OTHER               -> "ok"
IsAbsent(auth) == auth \in {"absent", "absent:ref2", "absent:false"}

(* exceptions.py ConnectionRefusedError.error_args rendered as sorted      *)
(* key=value tokens                                                        *)
FailReason(b) ==
    CASE b = "ref1" -> <<"message=m1">>
      [] b = "ref2" -> <<"data=d1", "message=m1">>
      [] b = "ref3" -> <<"data=(d1,d2)", "message=m1">>
      [] OTHER      -> <<"message=Connection rejected by server">>

(* Event handlers: result tokens per event name; "raise" raises Boom;      *)
(* "e_unh" has no function handler and no on_e_unh method.                 *)
EvResult(ev) ==
    CASE ev = "e_none" -> [k |-> "none",  v |-> <<>>]
      [] ev = "e_v"    -> [k |-> "one",   v |-> <<"v1">>]
      [] ev = "e_z"    -> [k |-> "one",   v |-> <<"z0">>]
      [] ev = "e_list" -> [k |-> "one",   v |-> <<"l1">>]
      [] ev = "e_dict" -> [k |-> "one",   v |-> <<"d1">>]
      [] ev = "e_tup0" -> [k |-> "tuple", v |-> <<>>]
      [] ev = "e_tup1" -> [k |-> "tuple", v |-> <<"v1">>]
      [] ev = "e_tup2" -> [k |-> "tuple", v |-> <<"v1", "v2">>]
      [] ev = "e_bin"  -> [k |-> "one",   v |-> <<"b1">>]
      [] ev = "e_tbin" -> [k |-> "tuple", v |-> <<"v1", "b1">>]
      [] ev = "e_ddb"  -> [k |-> "one",   v |-> <<"ddb1">>]    \* byte strings two levels down
      [] ev = "e_f"    -> [k |-> "one",   v |-> <<"f1">>]     \* falsy but meaningful results
      [] ev = "e_es"   -> [k |-> "one",   v |-> <<"es">>]
      [] ev = "e_el"   -> [k |-> "one",   v |-> <<"el">>]
      [] ev = "e_ed"   -> [k |-> "one",   v |-> <<"ed">>]
      [] ev = "e_h"    -> [k |-> "one",   v |-> <<"h1">>]
      [] ev = "e_raise"-> [k |-> "raise", v |-> <<>>]
      [] OTHER         -> [k |-> "unh",   v |-> <<>>]

BinaryTok(x) == x \in {"b1", "b2", "db1", "ddb1"}
HasBinary(q) == \E i \in 1..Len(q) : BinaryTok(q[i])

(* a handler invocation; `pre` = how many packets this step had already     *)
(* sent to the client's own transport when the handler started (the order  *)
(* of packets and handlers: CONNECT before the connect handler under       *)
(* always_connect, DISCONNECT before the disconnect handler of             *)
(* Server.disconnect(), ...)                                               *)
HCallP(ns, ev, sid, args, pre) == [h |-> HKind, ns |-> ns, ev |-> ev, sid |-> sid, args |-> args, pre |-> pre]
HCall(ns, ev, sid, args) == HCallP(ns, ev, sid, args, 0)
SentTo(m, t) == IF t = "none" THEN 0 ELSE Len(Get(m.pk, t, <<>>))
AddCall(m, c) == IF m.exc # "" THEN m ELSE [m EXCEPT !.hc = Append(@, c)]

----------------------------------------------------------------------------
(* server.py _handle_disconnect (561-570) for one namespace                *)
DiscHandler(m, ns, sid, reason) ==
    IF m.exc # "" \/ ns \notin NsH THEN m
    ELSE LET m1 == AddCall(m, HCallP(ns, "disconnect", sid, <<reason>>, SentTo(m, TOf(m.s, sid, ns))))
         IN  IF ns \in m.s.raiseDisc THEN Raise(m1, "Boom") ELSE m1

(* Intended design: manager.disconnect() completes the termination even    *)
(* when the application's disconnect handler raised, and the remaining     *)
(* namespaces of a lost transport are still processed.  Known finding D3:  *)
(* in the code the raise skips everything that follows.                    *)
FinishDisconnect(m0, m, sid, ns) ==
    IF m.exc = "" \/ "D3" \notin Dev
    THEN [m EXCEPT !.s = BasicDisconnect(m.s, sid, ns)] ELSE m

DiscOne(m, t, ns, reason) ==
    IF m.exc # "" /\ "D3" \in Dev THEN m
    ELSE LET sid == SidFromT(m.s, t, ns)
             mm  == [m EXCEPT !.exc = ""]
         IN  IF ~IsConnected(m.s, sid, ns) THEN m
             ELSE LET m1 == [mm EXCEPT !.s = PreDisconnect(mm.s, sid, ns)]
                      m2 == DiscHandler(m1, ns, sid, reason)
                      m3 == FinishDisconnect(m1, m2, sid, ns)
                  IN  [m3 EXCEPT !.exc = IF m.exc # "" THEN m.exc ELSE m3.exc]

----------------------------------------------------------------------------
(* server.py _handle_connect (515-559)                                     *)
RxConnect(m, t, ns, auth) ==
    LET s   == m.s
        dup == \E x \in DOMAIN AllMembers(s, ns) : AllMembers(s, ns)[x] = t
    IN
    IF ~Served(ns) \/ dup
    THEN Send(m, t, Pkt("CONNECT_ERROR", ns, -1, <<"Unable to connect">>))
    ELSE
    LET sid == SidName(s.nextSid)
        r1  == EnterRooms(EnterRooms(s.rooms, ns, "None", sid, t), ns, sid, sid, t)
        m1  == [m EXCEPT !.s = SyncOrder([s EXCEPT !.nextSid = @ + 1], r1)]
        m2  == IF AlwaysConnect THEN Send(m1, t, Pkt("CONNECT", ns, -1, <<"sid", sid>>)) ELSE m1
        b   == IF ns \in NsH THEN AuthBehaviour(auth) ELSE "ok"
        \* `if data:` - an absent payload reaches a three-argument handler as None
        m3  == IF ns \in NsH
               THEN AddCall(m2, HCallP(ns, "connect", sid,
                               <<"env:" \o t, IF IsAbsent(auth) THEN "None" ELSE auth>>, SentTo(m2, t)))
               ELSE m2
    IN
    IF b = "raise" THEN Raise(m3, "Boom")
    ELSE IF b = "ok"
    THEN IF AlwaysConnect THEN m3 ELSE Send(m3, t, Pkt("CONNECT", ns, -1, <<"sid", sid>>))
    ELSE \* refused: False or ConnectionRefusedError
    LET m4 == IF AlwaysConnect
              THEN Send([m3 EXCEPT !.s = PreDisconnect(m3.s, sid, ns)], t,
                        Pkt("DISCONNECT", ns, -1, FailReason(b)))
              ELSE Send(m3, t, Pkt("CONNECT_ERROR", ns, -1, FailReason(b)))
    IN  [m4 EXCEPT !.s = BasicDisconnect(m4.s, sid, ns)]

(* server.py _handle_event / _handle_event_internal (572-602)              *)
Pack(r) == IF r.k = "none" THEN <<>> ELSE r.v

HandleEventInternal(m, t, ns, id, ev, args, sid) ==
        IF ns \notin NsH THEN m      \* nobody responsible: not_handled, no ACK
        ELSE LET r == EvResult(ev)
             IN  IF r.k = "unh"
                 THEN IF HKind = "fn" THEN m
                      \* a class-based namespace is responsible even without on_<event>
                      ELSE IF id >= 0 THEN Send(m, t, Pkt("ACK", ns, id, <<>>)) ELSE m
                 ELSE LET m1 == AddCall(m, HCallP(ns, ev, sid, args, SentTo(m, t)))
                      IN  IF r.k = "raise"
                          THEN IF AsyncHandlers THEN [m1 EXCEPT !.res = <<"bgexc", "Boom">>]
                               ELSE Raise(m1, "Boom")
                          ELSE IF id >= 0
                          THEN Send(m1, t, Pkt(IF HasBinary(Pack(r)) THEN "BINARY_ACK" ELSE "ACK",
                                               ns, id, Pack(r)))
                          ELSE m1

HandleEvent(m, t, ns, id, ev, args) ==
    LET sid == SidFromT(m.s, t, ns)
    IN  IF m.exc # "" \/ ~IsConnected(m.s, sid, ns) THEN m
        ELSE HandleEventInternal([m EXCEPT !.bg = IF AsyncHandlers THEN @ + 1 ELSE @], t, ns, id, ev, args, sid)

(* manager.py trigger_callback (80-92) via server.py _handle_ack (604)     *)
HandleAck(m, t, ns, id, args) ==
    LET sid == SidFromT(m.s, t, ns)
        c   == Get(m.s.cb, sid, [next |-> 1, out |-> <<>>])
        k   == ToString(id)
    IN  IF m.exc # "" THEN m
        ELSE IF Has(m.s.cb, sid) /\ Has(c.out, k)
        THEN [m EXCEPT !.s.cb = Put(@, sid, [c EXCEPT !.out = Del(@, k)]),
                       !.cbs = Append(@, [tag |-> c.out[k], args |-> args])]
        ELSE m      \* unknown callback: ignored

AckBare(m, t) ==
    LET sid == SidFromT(m.s, t, "/")
        c   == Get(m.s.cb, sid, [next |-> 1, out |-> <<>>])
    IN  IF Has(m.s.cb, sid) /\ Has(c.out, "1")
        THEN Raise([m EXCEPT !.s.cb = Put(@, sid, [c EXCEPT !.out = Del(@, "1")])], "X")
        ELSE m

(* server.py _handle_eio_message (638-666): the binary reassembly buffer   *)
RxBinHeader(m, t, ty, ns, id, ev, n, bad) ==
    [m EXCEPT !.s.binbuf = Put(@, t, [ty |-> ty, ns |-> ns, id |-> id, ev |-> ev,
                                       owed |-> n, atts |-> <<>>,
                                       bad |-> bad])]   \* a placeholder points outside the attachments

RxAttachment(m, t, b) ==
    LET p == m.s.binbuf[t]
    IN  IF p.owed <= Len(p.atts) THEN Raise(m, "ValueError")   \* packet.py add_attachment
        ELSE LET atts == Append(p.atts, b)
             IN  IF Len(atts) < p.owed
                 THEN [m EXCEPT !.s.binbuf = Put(@, t, [p EXCEPT !.atts = atts])]
                 \* the packet cannot be put together: nothing is dispatched (packet.py 131-139)
                 ELSE IF p.bad THEN Raise([m EXCEPT !.s.binbuf = Put(@, t, [p EXCEPT !.atts = atts])], "IndexError")
                 ELSE LET m1 == [m EXCEPT !.s.binbuf = Del(@, t)]
                      IN  IF p.ty = "BINARY_EVENT"
                          THEN HandleEvent(m1, t, p.ns, p.id, p.ev, atts)
                          ELSE HandleAck(m1, t, p.ns, p.id, atts)

----------------------------------------------------------------------------
(* API calls                                                               *)

(* manager.py emit (24-66) behind server.py emit (118-168)                 *)
RECURSIVE EmitTo(_, _, _, _, _, _)
EmitTo(m, ns, sids, ev, data, cbTag) ==
    IF sids = {} THEN m
    ELSE LET sid == CHOOSE x \in sids : TRUE
             t   == AllMembers(m.s, ns)[sid]
             m1  == IF cbTag = ""
                    THEN Send(m, t, Pkt(IF HasBinary(data) THEN "BINARY_EVENT" ELSE "EVENT",
                                        ns, -1, <<ev>> \o data))
                    ELSE LET c  == Get(m.s.cb, sid, [next |-> 1, out |-> <<>>])
                             m0 == [m EXCEPT !.s.cb = Put(@, sid,
                                        [next |-> c.next + 1, out |-> Put(c.out, ToString(c.next), cbTag)])]
                         IN  Send(m0, t, Pkt(IF HasBinary(data) THEN "BINARY_EVENT" ELSE "EVENT",
                                             ns, c.next, <<ev>> \o data))
         IN  EmitTo(m1, ns, sids \ {sid}, ev, data, cbTag)

EmitData(d) == IF d = "none" THEN <<>> ELSE IF d = "tup2" THEN <<"v1", "v2">> ELSE <<d>>

Emit(m, a) ==
    IF ~Has(m.s.rooms, a.ns) THEN m
    ELSE LET skip == IF a.skipKind = "none" THEN {} ELSE Range(a.skip)
             rcpt == Participants(m.s, a.ns, a.toKind, a.to) \ skip
         IN  EmitTo(m, a.ns, rcpt, a.ev, EmitData(a.data), a.cb)

(* basic_enter_room (base_manager.py:103-112)                              *)
EnterRoom(m, sid, room, ns) ==
    IF ~Has(m.s.rooms, ns) THEN Raise(m, "ValueError")
    ELSE LET N  == m.s.rooms[ns]
         IN  \* the client is looked up before anything is created (D13, fixed: the room used to
             \* be created first and stayed behind, empty, when the lookup failed)
             IF ~Has(Get(N, "None", <<>>), sid)
             THEN Raise(m, "KeyError")
             ELSE [m EXCEPT !.s.rooms = EnterRooms(@, ns, room, sid, N["None"][sid])]

LeaveRoom(m, sid, room, ns) ==
    [m EXCEPT !.s = SyncOrder(m.s, LeaveRooms(m.s.rooms, ns, room, sid))]

RECURSIVE LeaveAllOne(_, _, _, _)
LeaveAllOne(rooms, ns, room, who) ==
    IF who = {} THEN rooms
    ELSE LET x == CHOOSE x \in who : TRUE
         IN  LeaveAllOne(LeaveRooms(rooms, ns, room, x), ns, room, who \ {x})

(* basic_close_room (base_manager.py:132-137)                              *)
CloseRoom(m, room, ns) ==
    LET who == DOMAIN Get(Get(m.s.rooms, ns, <<>>), room, <<>>)
    IN  [m EXCEPT !.s = SyncOrder(m.s, LeaveAllOne(m.s.rooms, ns, room, who))]


(* get_rooms (base_manager.py:139-149); returned as a set (the adapter      *)
(* compares it as a set: the listing order is not part of any property)    *)
RoomsOf(s, sid, ns) ==
    LET N == Get(s.rooms, ns, <<>>)
    IN  {r \in DOMAIN N : r # "None" /\ Has(N[r], sid)}

(* server.py disconnect (384-409); Manager.can_disconnect = is_connected   *)
Disconnect(m, sid, ns) ==
    IF ~IsConnected(m.s, sid, ns) THEN m
    ELSE LET t  == TOf(m.s, sid, ns)
             m1 == [m EXCEPT !.s = PreDisconnect(m.s, sid, ns)]
             m2 == Send(m1, t, Pkt("DISCONNECT", ns, -1, <<>>))
             m3 == DiscHandler(m2, ns, sid, "server disconnect")
         IN  FinishDisconnect(m2, m3, sid, ns)

(* server.py get_session / save_session / session (314-382): the session   *)
(* lives on the engine.io socket, keyed by namespace                       *)
GetSession(m, sid, ns) ==
    LET t == TOf(m.s, sid, ns)
    IN  IF t = "none" \/ m.s.eio[t] # "open" THEN Raise(m, "KeyError")
        ELSE LET S == Get(m.s.sess, t, <<>>)
                 v == Get(S, ns, "empty")      \* setdefault(namespace, {})
             IN  [m EXCEPT !.s.sess = Put(@, t, Put(S, ns, v)), !.res = <<"ok", v>>]

SaveSession(m, sid, ns, v) ==
    LET t == TOf(m.s, sid, ns)
    IN  IF t = "none" \/ m.s.eio[t] # "open" THEN Raise(m, "KeyError")
        ELSE [m EXCEPT !.s.sess = Put(@, t, Put(Get(@, t, <<>>), ns, v))]

SessionBlock(m, sid, ns, v) ==      \* with sio.session(sid) as s: s["tag"] = v
    LET m1 == GetSession(m, sid, ns)
    IN  IF m1.exc # "" THEN m1 ELSE [SaveSession(m1, sid, ns, v) EXCEPT !.res = m1.res]

GetEnviron(m, sid, ns) ==
    LET t == TOf(m.s, sid, ns)
    IN  [m EXCEPT !.res = <<"ok", IF t # "none" /\ t \in m.s.environ THEN "env:" \o t ELSE "None">>]

----------------------------------------------------------------------------
(* Transport events                                                        *)
EioOpen(m, t) == [m EXCEPT !.s.eio[t] = "open", !.s.environ = @ \cup {t}]

(* server.py _handle_eio_disconnect (668-673): every namespace the manager *)
(* knows, in the manager's dict order, then the environ; afterwards        *)
(* engine.io drops the socket (and the sessions stored on it)              *)
RECURSIVE DiscLoop(_, _, _, _)
DiscLoop(m, t, order, reason) ==
    IF order = <<>> THEN m
    ELSE DiscLoop(DiscOne(m, t, Head(order), reason), t, Tail(order), reason)

EioLost(m, t, reason) ==
    LET m1 == DiscLoop(m, t, m.s.nsOrder, reason)
        m2 == IF m1.exc = "" \/ "D3" \notin Dev
              THEN [m1 EXCEPT !.s.environ = @ \ {t}, !.s.binbuf = Del(@, t)] ELSE m1
    IN  [m2 EXCEPT !.s.eio[t] = "closed", !.s.sess = Del(@, t)]

----------------------------------------------------------------------------
(* server.py call (230-279): emit with an internal callback, then wait     *)
(* while `during` happens (ACKs arriving, transports being lost); the     *)
(* frames and transport events that arrive meanwhile are processed by      *)
(* other threads / tasks and contained there                               *)
(* A session block that stays open while its client leaves the namespace,   *)
(* comes back (a NEW session id on the same transport) and has a session    *)
(* saved: the block's dictionary is the stored one, so its write is visible *)
(* at once; on exit save_session() no longer finds the old session id       *)
(* (KeyError) and the newcomer's session is what was saved for it.          *)
SessionBlockD(m, a) ==
    LET t  == TOf(m.s, a.sid, a.ns)
        m1 == SaveSession(GetSession(m, a.sid, a.ns), a.sid, a.ns, a.val)
        m2 == DiscOne(m1, t, a.ns, "client disconnect")
        m3 == RxConnect(m2, t, a.ns, "absent")
        m4 == SaveSession(m3, a.newsid, a.ns, a.val2)
    IN  SaveSession(m4, a.sid, a.ns, a.val)
SessionBlockDSubActs(s, a) ==      \* the same as a sequence of ordinary actions (for the ghosts)
    LET t == TOf(s, a.sid, a.ns)
    IN  << [act |-> "SaveSession", sid |-> a.sid, ns |-> a.ns, val |-> a.val, live |-> FALSE, need |-> 0],
           [act |-> "RxDisconnect", t |-> t, ns |-> a.ns, live |-> FALSE, need |-> 0],
           [act |-> "RxConnect", t |-> t, ns |-> a.ns, auth |-> "absent", live |-> FALSE, need |-> 0],
           [act |-> "SaveSession", sid |-> a.newsid, ns |-> a.ns, val |-> a.val2, live |-> FALSE, need |-> 0] >>

RECURSIVE DuringS(_, _)
DuringS(m, steps) ==
    IF steps = <<>> THEN m
    ELSE LET x  == Head(steps)
             m1 == IF m.s.eio[x.t] # "open" THEN m
                   ELSE IF x.act = "RxAck" THEN HandleAck(m, x.t, x.ns, x.id, x.args)
                   ELSE EioLost(m, x.t, x.reason)
         IN  DuringS(m1, Tail(steps))

Shape(args) == IF Len(args) = 0 THEN <<"ok", "none">>
               ELSE IF Len(args) = 1 THEN <<"ok", "one", args[1]>>
               ELSE <<"ok", "tuple">> \o args

CallTag(sid, id) == "call:" \o sid \o ":" \o ToString(id)
CallTags == {CallTag(SidName(i), k) : i \in 1..MaxSid, k \in 0..(MaxAck + 2)}
IsCallTag(tag) == tag \in CallTags      \* call()'s internal callback: not an application callback

CallS(m, a) ==
    IF ~AsyncHandlers THEN Raise(m, "RuntimeError")
    ELSE \* a.before: what other threads process before the event has gone out
         \* (while call() is still preparing); a.during: afterwards, until the wait ends
         LET m0   == DuringS(m, a.before)
             nid  == Get(m0.s.cb, a.sid, [next |-> 1, out |-> <<>>]).next
             m1   == Emit(m0, [ns |-> a.ns, toKind |-> "one", to |-> <<a.sid>>, skipKind |-> "none",
                              skip |-> <<>>, ev |-> a.ev, data |-> "v1", cb |-> CallTag(a.sid, nid)])
             m2   == DuringS(m1, a.during)
             mine == SelectSeq(m2.cbs, LAMBDA x : x.tag = CallTag(a.sid, nid))
             m3   == [m2 EXCEPT !.cbs = SelectSeq(@, LAMBDA x : x.tag # CallTag(a.sid, nid))]
         IN  IF mine = <<>> THEN Raise(m3, "TimeoutError")
             ELSE [m3 EXCEPT !.res = Shape(mine[1].args)]

----------------------------------------------------------------------------
(* Dispatcher: the outcome of action record a in core state s              *)
IsRx(a) == a.act \in {"RxConnect", "RxDisconnect", "RxEvent", "RxAck", "RxAckDup", "RxFrame", "RxRaw", "RxFuzz", "EioLost"}

Step(m, a) ==
    CASE a.act = "EioOpen"      -> EioOpen(m, a.t)
      [] a.act = "EioLost"      -> EioLost(m, a.t, a.reason)
      [] a.act = "RxConnect"    -> RxConnect(m, a.t, a.ns, a.auth)
      [] a.act = "RxDisconnect" -> DiscOne(m, a.t, a.ns, "client disconnect")
      [] a.act = "RxEvent"      -> HandleEvent(m, a.t, a.ns, a.id, a.ev, a.args)
      [] a.act = "RxAck"        -> HandleAck(m, a.t, a.ns, a.id, a.args)
      \* the same ACK twice, the second while the first is still being processed (asyncio:
      \* each frame is its own task and the application's callback may be suspended)
      [] a.act = "RxAckDup"     -> HandleAck(HandleAck(m, a.t, a.ns, a.id, a.args), a.t, a.ns, a.id, a.args)
      [] a.act = "RxFrame"      ->
            IF a.kind \in {"hdr", "hdrbad"}
            THEN IF Has(m.s.binbuf, a.t) THEN RxAttachment(m, a.t, "?text")
                 ELSE RxBinHeader(m, a.t, a.ty, a.ns, a.id, a.ev, a.n, a.kind = "hdrbad")
            ELSE IF Has(m.s.binbuf, a.t) THEN RxAttachment(m, a.t, a.b)
                 ELSE Raise(m, "ValueError")   \* bytes where a text packet is expected
      \* a malformed / hostile frame: `class` is what the reference reading of the
      \* frame says ("contained": undecodable or ill-typed, the message callback
      \* raises inside engine.io; "ignored": decodable but nobody is responsible)
      \* "ackbare": an ACK with an id and no payload at all ("31") - if that id is outstanding
      \* for the sender the callback is taken off the table and then cannot be applied to the
      \* missing arguments (manager.py 80-92: callback(*None)): it is never invoked
      [] a.act = "RxRaw"        -> IF a.class = "contained" THEN Raise(m, "X")
                                   ELSE IF a.class = "ackbare" THEN AckBare(m, a.t)
                                   ELSE m
      \* an arbitrary frame (random tier of C12): what it does to its sender is not modelled -
      \* the edge is judged by FuzzOK below, never by Do
      [] a.act = "RxFuzz"       -> m
      [] a.act = "Emit"         -> Emit(m, a)
      [] a.act = "Call"         -> CallS(m, a)
      [] a.act = "EnterRoom"    -> EnterRoom(m, a.sid, a.room, a.ns)
      [] a.act = "LeaveRoom"    -> LeaveRoom(m, a.sid, a.room, a.ns)
      [] a.act = "CloseRoom"    -> CloseRoom(m, a.room, a.ns)
      [] a.act = "Rooms"        -> [m EXCEPT !.set = RoomsOf(m.s, a.sid, a.ns)]
      [] a.act = "Disconnect"   -> Disconnect(m, a.sid, a.ns)
      [] a.act = "GetSession"   -> GetSession(m, a.sid, a.ns)
      [] a.act = "SaveSession"  -> SaveSession(m, a.sid, a.ns, a.val)
      [] a.act = "SessionBlock" -> SessionBlock(m, a.sid, a.ns, a.val)
      \* a session block opened inside another one for the same client (a helper called by a
      \* handler): both see ONE session, the outcome is that of a single block
      [] a.act = "SessionNested" -> SessionBlock(m, a.sid, a.ns, a.val)
      [] a.act = "SessionBlockD" -> SessionBlockD(m, a)
      [] a.act = "GetEnviron"   -> GetEnviron(m, a.sid, a.ns)
      [] a.act = "Arm"          -> [m EXCEPT !.s.raiseDisc =
                                        IF a.ns \in @ THEN @ \ {a.ns} ELSE @ \cup {a.ns}]

(* An exception raised by an API call reaches the caller; one raised while *)
(* a frame or a transport event is processed is contained by engine.io.    *)
Do(s, a) ==
    LET m0 == Step(M0(s), a)
        \* an ACK that completes an abandoned call() (it timed out earlier) runs that call's
        \* internal callback, which no application code sees
        m  == [m0 EXCEPT !.cbs = SelectSeq(@, LAMBDA x : ~IsCallTag(x.tag))]
    IN  IF m.exc = "" THEN m
        ELSE [m EXCEPT !.res = <<IF IsRx(a) THEN "contained" ELSE "exc", m.exc>>]

(* State-dependent part of the alphabet (budgets, physical possibility).   *)
(* a.need = number of session ids that must have been allocated for the    *)
(* action's tokens to denote real ids.                                     *)
Enabled(s, a) ==
    /\ s.nextSid > a.need
    /\ a.live => Has(AllMembers(s, a.ns), a.sid)     \* only for a client that is there
    /\ CASE a.act = "EioOpen" -> s.eio[a.t] = "none" /\ \A u \in Transports : a.after = u => s.eio[u] # "none"
         [] a.act \in {"EioLost", "RxFuzz"} -> s.eio[a.t] = "open"
         [] a.act = "SessionBlockD" ->
                LET t == TOf(s, a.sid, a.ns)
                IN  /\ t # "none" /\ s.eio[t] = "open" /\ ~Has(s.binbuf, t)
                    /\ s.nextSid <= MaxSid /\ a.newsid = SidName(s.nextSid)
         [] a.act = "RxConnect" -> s.eio[a.t] = "open" /\ s.nextSid <= MaxSid /\ ~Has(s.binbuf, a.t)
         [] a.act \in {"RxDisconnect", "RxEvent", "RxAck", "RxAckDup", "RxRaw"} -> s.eio[a.t] = "open" /\ ~Has(s.binbuf, a.t)
         [] a.act = "RxFrame" -> /\ s.eio[a.t] = "open"
                                 /\ (a.kind \in {"hdr", "hdrbad"} => ~Has(s.binbuf, a.t))
                                 \* a text frame while attachments are owed (it is taken for one)
                                 /\ (a.kind = "text" => Has(s.binbuf, a.t))
                                 \* budget: attachments buffered for one packet
                                 /\ (a.kind = "att" /\ Has(s.binbuf, a.t) => Len(s.binbuf[a.t].atts) < 3)
         [] a.act = "Emit" -> a.cb # "" => \A x \in DOMAIN s.cb : s.cb[x].next <= MaxAck
         [] a.act = "Call" -> \A x \in DOMAIN s.cb : s.cb[x].next <= MaxAck
         [] OTHER -> TRUE

----------------------------------------------------------------------------
(* Ghosts: the vocabulary of the property statements                       *)
InitGh ==
    [ n      |-> 1,      \* session ids handed out so far + 1
      conn   |-> {},     \* [sid, ns, t] : accepted and not yet ended
      member |-> {},     \* <<ns, room, sid>> : entered and not since left / closed
      ended  |-> {},     \* sids whose connection has ended (or was refused)
      acc    |-> {},     \* sids accepted on a namespace that has handlers
      owned  |-> <<>>,   \* owned[t] = sids ever allocated on transport t
      druns  |-> <<>>,   \* disconnect handler runs per sid (observed)
      issued |-> {},     \* [sid, id, tag] : server-initiated acks outstanding
      want   |-> <<>>,   \* want[<<sid, ns>>] = declared session contents
      stale  |-> <<>>,   \* stale[<<t, ns>>] = session left behind by an ended connection (D6)
      dev    |-> {} ]    \* labels of known deviations taken on this behaviour

GConnOf(g, sid, ns) == {c \in g.conn : c.sid = sid /\ c.ns = ns}
GEnd(g, cs) ==          \* the connections cs end
    [g EXCEPT !.conn = @ \ cs,
              !.member = {x \in @ : ~\E c \in cs : c.sid = x[3] /\ c.ns = x[1]},
              !.ended = @ \cup {c.sid : c \in cs},
              !.issued = {x \in @ : ~\E c \in cs : c.sid = x.sid},
              !.want = [k \in DOMAIN @ \ {<<c.sid, c.ns>> : c \in cs} |-> @[k]]]

CountDisc(g, hc) ==     \* observation: disconnect handler invocations
    LET sids == {hc[i].sid : i \in {k \in 1..Len(hc) : hc[k].ev = "disconnect"}}
    IN  [g EXCEPT !.druns = [x \in DOMAIN @ \cup sids |->
            Get(@, x, 0) + Cardinality({k \in 1..Len(hc) : hc[k].ev = "disconnect" /\ hc[k].sid = x})]]

RECURSIVE GhostStep(_, _, _, _), GDuring(_, _, _)
GDuring(s, g, steps) ==
    IF steps = <<>> THEN g ELSE GDuring(s, GhostStep(s, g, Head(steps), <<>>), Tail(steps))

GhostStep(s, g, a, o) ==
    CASE a.act = "RxConnect" ->
            IF Served(a.ns) /\ ~\E c \in g.conn : c.t = a.t /\ c.ns = a.ns
            THEN LET sid == SidName(g.n)
                     b   == IF a.ns \in NsH THEN AuthBehaviour(a.auth) ELSE "ok"
                     g1  == [g EXCEPT !.n = @ + 1,
                                      !.owned = Put(@, a.t, Get(@, a.t, {}) \cup {sid})]
                 IN  IF b \in {"ok", "raise"}
                     THEN [g1 EXCEPT !.conn = @ \cup {[sid |-> sid, ns |-> a.ns, t |-> a.t]},
                                     !.member = @ \cup {<<a.ns, sid, sid>>},
                                     !.acc = IF a.ns \in NsH THEN @ \cup {sid} ELSE @]
                     ELSE [g1 EXCEPT !.ended = @ \cup {sid}]
            ELSE g
      [] a.act = "RxDisconnect" -> GEnd(g, {c \in g.conn : c.t = a.t /\ c.ns = a.ns})
      [] a.act = "Disconnect"   -> GEnd(g, GConnOf(g, a.sid, a.ns))
      [] a.act = "EioLost"      -> GEnd(g, {c \in g.conn : c.t = a.t})
      [] a.act = "EnterRoom"    ->
            IF GConnOf(g, a.sid, a.ns) # {} THEN [g EXCEPT !.member = @ \cup {<<a.ns, a.room, a.sid>>}] ELSE g
      [] a.act = "LeaveRoom"    -> [g EXCEPT !.member = @ \ {<<a.ns, a.room, a.sid>>}]
      [] a.act = "CloseRoom"    -> [g EXCEPT !.member = {x \in @ : ~(x[1] = a.ns /\ x[2] = a.room)}]
      [] a.act \in {"SaveSession", "SessionBlock", "SessionNested"} ->
            IF GConnOf(g, a.sid, a.ns) # {} THEN [g EXCEPT !.want = Put(@, <<a.sid, a.ns>>, a.val)] ELSE g
      [] a.act = "Emit" /\ a.cb # "" ->      \* observation: ids the server put on the wire
            [g EXCEPT !.issued = @ \cup
                {[sid |-> c.sid, id |-> o.pk[c.t][1].id, tag |-> a.cb] :
                    c \in {c \in g.conn : c.ns = a.ns /\ Has(o.pk, c.t)}}]
      [] a.act = "Call" ->
            IF o.res[1] = "exc" /\ o.res[2] = "RuntimeError" THEN g
            ELSE LET g0 == GDuring(s, g, a.before)
                     g1 == [g0 EXCEPT !.issued = @ \cup
                              {[sid |-> c.sid, id |-> o.pk[c.t][1].id, tag |-> CallTag(c.sid, o.pk[c.t][1].id)] :
                                  c \in {c \in g0.conn : c.sid = a.sid /\ c.ns = a.ns /\ Has(o.pk, c.t)}}]
                 IN  GDuring(s, g1, a.during)
      [] a.act \in {"RxAck", "RxAckDup"} ->
            [g EXCEPT !.issued = {x \in @ : ~(x.id = a.id /\ \E c \in g.conn :
                                              c.t = a.t /\ c.ns = a.ns /\ c.sid = x.sid)}]
      [] a.act = "RxFrame" /\ a.kind = "att" /\ Has(s.binbuf, a.t) ->
            \* a binary ACK completes: same rule, with the buffered header's namespace and id
            LET p == s.binbuf[a.t]
            IN  IF p.ty = "BINARY_ACK" /\ Len(p.atts) + 1 = p.owed /\ ~p.bad
                THEN [g EXCEPT !.issued = {x \in @ : ~(x.id = p.id /\ \E c \in g.conn :
                                                  c.t = a.t /\ c.ns = p.ns /\ c.sid = x.sid)}]
                ELSE g
      [] OTHER -> g

(* A disconnect handler that raises aborts the termination that called it  *)
(* (known finding D3, see known_findings.json)                             *)
(* D6 bookkeeping: which (transport, namespace) slots hold a session that  *)
(* no live connection owns                                                 *)
Stale(s2, g2) ==
    LET slots == UNION {{<<t, ns>> : ns \in DOMAIN s2.sess[t]} : t \in DOMAIN s2.sess}
        dead  == {x \in slots : ~\E c \in g2.conn : c.t = x[1] /\ c.ns = x[2]}
        fresh == {x \in slots \ dead : \E c \in g2.conn :
                     c.t = x[1] /\ c.ns = x[2] /\ ~Has(g2.want, <<c.sid, c.ns>>)
                     /\ s2.sess[x[1]][x[2]] # "empty"}
    IN  [x \in dead \cup fresh |-> s2.sess[x[1]][x[2]]]

GhostNext1(s, g, a) ==
    IF g.dev # {} THEN g ELSE    \* after a known deviation the history is no longer tracked
    LET o  == Do(s, a)
        g1 == CountDisc(GhostStep(s, g, a, o), o.hc)
        g2 == [g1 EXCEPT !.stale = Stale(o.s, g1)]
    IN  IF "D3" \in Dev /\ o.exc = "Boom" /\ \E i \in 1..Len(o.hc) : o.hc[i].ev = "disconnect"
        THEN [g2 EXCEPT !.dev = @ \cup {"D3"}]
        ELSE g2

(* a composite action moves the ghosts like the sequence of its parts *)
RECURSIVE GhostFold(_, _, _)
GhostFold(s, g, acts) ==
    IF acts = <<>> THEN g
    ELSE GhostFold(Do(s, Head(acts)).s, GhostNext1(s, g, Head(acts)), Tail(acts))
GhostNext(s, g, a) ==
    IF a.act = "SessionBlockD" THEN GhostFold(s, g, SessionBlockDSubActs(s, a)) ELSE GhostNext1(s, g, a)

----------------------------------------------------------------------------
Init == st = InitSt /\ gh = InitGh

Acts(s) == {Alphabet[i] : i \in {k \in 1..Len(Alphabet) : Enabled(s, Alphabet[k])}}

Next == \E a \in Acts(st) : st' = Do(st, a).s /\ gh' = GhostNext(st, gh, a)

Spec == Init /\ [][Next]_vars

----------------------------------------------------------------------------
(* Structural invariants of the core                                       *)
TypeOK ==
    /\ DOMAIN st.rooms = Range(st.nsOrder)
    \* (a namespace entry may outlive its members: enter_room() for an unknown
    \*  session id creates the room before it raises, base_manager.py:108-111)
    /\ st.residue = <<>>

(* Ghost and core agree on who is connected (only when no handler raised)  *)
ConnAgree ==
    \A ns \in DOMAIN st.rooms \cup {c.ns : c \in gh.conn} :
        {<<x, AllMembers(st, ns)[x]>> : x \in DOMAIN AllMembers(st, ns)}
            = {<<c.sid, c.t>> : c \in {c \in gh.conn : c.ns = ns}}

----------------------------------------------------------------------------
(* C03 - rooms: exact recipient set, once each; rooms() listing            *)
Addressed(g, a) ==          \* statement-shaped
    LET skip == IF a.skipKind = "none" THEN {} ELSE Range(a.skip)
        rs   == Range(a.to)
    IN  {c.t : c \in {c \in g.conn :
            /\ c.ns = a.ns
            /\ c.sid \notin skip
            /\ (a.toKind = "none" \/ \E r \in rs : <<a.ns, r, c.sid>> \in g.member)}}

Delivered(o) == DOMAIN o.pk  \* code-shaped: transports that were sent something

C03_Recipients ==
    \A a \in Acts(st) : a.act = "Emit" =>
        LET o == Do(st, a)
        IN  /\ Delivered(o) = Addressed(gh, a)
            /\ \A t \in DOMAIN o.pk : Len(o.pk[t]) = 1 /\ o.pk[t][1].ns = a.ns
                                      /\ o.pk[t][1].ty \in {"EVENT", "BINARY_EVENT"}
            /\ o.s.rooms = st.rooms

C03_RoomsListing ==
    \A c \in gh.conn :
        RoomsOf(st, c.sid, c.ns) = {x[2] : x \in {x \in gh.member : x[1] = c.ns /\ x[3] = c.sid}}

C03_NoGhostsOfTheDeparted ==     \* a departed client is in no room
    \A sid \in gh.ended : \A ns \in DOMAIN st.rooms : \A r \in DOMAIN st.rooms[ns] :
        ~Has(st.rooms[ns][r], sid)

----------------------------------------------------------------------------
(* C04 - connection lifecycle                                              *)
NoRoomHas(s, sid) ==
    \A ns \in DOMAIN s.rooms : \A r \in DOMAIN s.rooms[ns] : ~Has(s.rooms[ns][r], sid)

C04_ConnectOutcome ==
    \A a \in Acts(st) : a.act = "RxConnect" =>
        LET o    == Do(st, a)
            dupG == \E c \in gh.conn : c.t = a.t /\ c.ns = a.ns
            sid  == SidName(gh.n)                       \* fresh: never handed out before
            P    == Get(o.pk, a.t, <<>>)
            b    == IF a.ns \in NsH THEN AuthBehaviour(a.auth) ELSE "ok"
            seen == IF IsAbsent(a.auth) THEN "None" ELSE a.auth
        IN  /\ DOMAIN o.pk \subseteq {a.t}              \* nobody else hears about it
            /\ IF ~Served(a.ns) \/ dupG
               THEN /\ o.hc = <<>>                      \* refused without running a handler
                    /\ P = <<Pkt("CONNECT_ERROR", a.ns, -1, <<"Unable to connect">>)>>
                    /\ o.s.rooms = st.rooms
               ELSE /\ IF a.ns \in NsH
                       \* (under always_connect the CONNECT has gone out before the handler runs)
                       THEN o.hc = <<HCallP(a.ns, "connect", sid, <<"env:" \o a.t, seen>>,
                                            IF AlwaysConnect THEN 1 ELSE 0)>>
                       ELSE o.hc = <<>>
                    /\ CASE b = "ok" ->
                              /\ P = <<Pkt("CONNECT", a.ns, -1, <<"sid", sid>>)>>
                              /\ IsConnected(o.s, sid, a.ns)
                         [] b = "raise" -> TRUE         \* outside the statement; modelled as observed
                         [] OTHER ->
                              /\ P = IF AlwaysConnect
                                     THEN <<Pkt("CONNECT", a.ns, -1, <<"sid", sid>>),
                                            Pkt("DISCONNECT", a.ns, -1, FailReason(b))>>
                                     ELSE <<Pkt("CONNECT_ERROR", a.ns, -1, FailReason(b))>>
                              /\ NoRoomHas(o.s, sid)    \* retains no membership anywhere
                              /\ o.s.pending = st.pending

ExpectedReason(a) ==
    CASE a.act = "EioLost" -> a.reason
      [] a.act = "RxDisconnect" -> "client disconnect"
      [] OTHER -> "server disconnect"

C04_DisconnectHandler ==        \* which handler runs, for whom, with which reason
    \A a \in Acts(st) : a.act \in {"EioLost", "RxDisconnect", "Disconnect"} =>
        LET o  == Do(st, a)
            cs == CASE a.act = "EioLost" -> {c \in gh.conn : c.t = a.t}
                    [] a.act = "RxDisconnect" -> {c \in gh.conn : c.t = a.t /\ c.ns = a.ns}
                    [] OTHER -> GConnOf(gh, a.sid, a.ns)
        IN  gh.dev = {} /\ o.exc = "" =>
            /\ {o.hc[i] : i \in 1..Len(o.hc)} =
                 \* (Server.disconnect() tells the client before it tells the application)
                 {HCallP(c.ns, "disconnect", c.sid, <<ExpectedReason(a)>>, IF a.act = "Disconnect" THEN 1 ELSE 0) :
                     c \in {c \in cs : c.ns \in NsH}}
            /\ Len(o.hc) = Cardinality({c \in cs : c.ns \in NsH})
            /\ \A c \in cs : ~IsConnected(o.s, c.sid, c.ns) /\ NoRoomHas(o.s, c.sid)
            \* the transport's other namespaces are unaffected
            /\ \A c \in gh.conn \ cs : IsConnected(o.s, c.sid, c.ns) /\ TOf(o.s, c.sid, c.ns) = c.t
            /\ (a.act = "Disconnect" /\ cs # {} =>
                    o.pk = (CHOOSE c \in cs : TRUE).t :> <<Pkt("DISCONNECT", a.ns, -1, <<>>)>>)
            /\ (a.act # "Disconnect" \/ cs = {} => o.pk = <<>>)

C04_DisconnectOnce ==
    gh.dev = {} =>
        /\ \A sid \in DOMAIN gh.druns : gh.druns[sid] <= 1
        /\ \A sid \in gh.acc : Get(gh.druns, sid, 0) = IF sid \in gh.ended THEN 1 ELSE 0

----------------------------------------------------------------------------
(* C05 - incoming events                                                   *)
C05_EventDispatch ==
    \A a \in Acts(st) : a.act = "RxEvent" =>
        LET o  == Do(st, a)
            cs == {c \in gh.conn : c.t = a.t /\ c.ns = a.ns}
            r  == EvResult(a.ev)
        IN  gh.dev = {} =>
            IF cs = {} THEN o.hc = <<>> /\ o.pk = <<>> /\ o.s = st
            ELSE LET c           == CHOOSE c \in cs : TRUE
                     invoked     == a.ns \in NsH /\ r.k # "unh"
                     responsible == a.ns \in NsH /\ (r.k # "unh" \/ HKind = "class")
                 IN  /\ o.hc = IF invoked THEN <<HCall(a.ns, a.ev, c.sid, a.args)>> ELSE <<>>
                     /\ IF a.id >= 0 /\ responsible /\ r.k # "raise"
                        THEN o.pk = a.t :> <<Pkt(IF HasBinary(Pack(r)) THEN "BINARY_ACK" ELSE "ACK",
                                                 a.ns, a.id, Pack(r))>>
                        ELSE o.pk = <<>>
                     /\ o.s = st

C05_BinaryEventDispatch ==     \* the attachment that completes a binary event
    \A a \in Acts(st) : (a.act = "RxFrame" /\ a.kind = "att" /\ Has(st.binbuf, a.t)) =>
        LET o == Do(st, a)
            p == st.binbuf[a.t]
            cs == {c \in gh.conn : c.t = a.t /\ c.ns = p.ns}
        IN  (gh.dev = {} /\ p.ty = "BINARY_EVENT" /\ Len(p.atts) + 1 = p.owed /\ ~p.bad /\ p.ns \in NsH
                /\ EvResult(p.ev).k \notin {"unh", "raise"} /\ cs # {}) =>
            /\ o.hc = <<HCall(p.ns, p.ev, (CHOOSE c \in cs : TRUE).sid, Append(p.atts, a.b))>>
            /\ ~Has(o.s.binbuf, a.t)
            /\ (p.id >= 0 => DOMAIN o.pk = {a.t} /\ Len(o.pk[a.t]) = 1 /\ o.pk[a.t][1].id = p.id)

----------------------------------------------------------------------------
(* C06 - server-initiated acknowledgements                                 *)
C06_IssuedIdUnique ==
    \A a \in Acts(st) : (a.act = "Emit" /\ a.cb # "") =>
        LET o == Do(st, a)
        IN  \A c \in {c \in gh.conn : c.ns = a.ns /\ Has(o.pk, c.t)} :
                /\ o.pk[c.t][1].id >= 1
                /\ ~\E x \in gh.issued : x.sid = c.sid /\ x.id = o.pk[c.t][1].id

C06_AckOutcome ==
    \A a \in Acts(st) : a.act \in {"RxAck", "RxAckDup"} =>      \* (a duplicate changes nothing: at most once)
        LET o    == Do(st, a)
            mine == {x \in gh.issued : x.id = a.id /\ \E c \in gh.conn :
                                       c.t = a.t /\ c.ns = a.ns /\ c.sid = x.sid}
        IN  gh.dev = {} =>
            /\ o.res = <<"ok">> /\ o.hc = <<>> /\ o.pk = <<>>
            /\ IF mine # {}
               THEN LET t == (CHOOSE x \in mine : TRUE).tag
                    IN  o.cbs = IF IsCallTag(t) THEN <<>> ELSE <<[tag |-> t, args |-> a.args]>>
               ELSE o.cbs = <<>> /\ o.s = st       \* ignored without error and without side effect

(* call(): the result is what THAT client acknowledged under THAT id while  *)
(* the call was waiting, shaped None / value / tuple; TimeoutError          *)
(* otherwise (statement-shaped: read off the schedule, not off the code)    *)
C06_CallOutcome ==
    \A a \in Acts(st) : a.act = "Call" =>
        LET o    == Do(st, a)
            \* (a transport lost before the event went out: nobody to ask)
            conn == {c \in GConnOf(gh, a.sid, a.ns) :
                        ~\E j \in 1..Len(a.before) : a.before[j].act = "EioLost" /\ a.before[j].t = c.t}
        IN  gh.dev = {} =>
            IF ~AsyncHandlers THEN o.res = <<"exc", "RuntimeError">> /\ o.s = st
            ELSE IF conn = {} THEN o.res = <<"exc", "TimeoutError">> /\ o.pk = <<>>
            ELSE LET c   == CHOOSE c \in conn : TRUE
                     id  == o.pk[c.t][1].id
                     idx == {i \in 1..Len(a.during) :
                                /\ a.during[i].act = "RxAck" /\ a.during[i].t = c.t
                                /\ a.during[i].ns = a.ns /\ a.during[i].id = id
                                /\ \A j \in 1..(i - 1) : ~(a.during[j].act = "EioLost" /\ a.during[j].t = c.t)}
                 IN  /\ \A i \in 1..Len(o.cbs) : o.cbs[i].tag # CallTag(a.sid, id)   \* (only the application's own callbacks show)
                     /\ IF idx = {} THEN o.res = <<"exc", "TimeoutError">>
                        ELSE o.res = Shape(a.during[CHOOSE i \in idx : \A j \in idx : i <= j].args)

C06_IssuedMatchesCore ==        \* the declared outstanding set is what the manager holds
    gh.dev = {} =>
        {<<x.sid, ToString(x.id), x.tag>> : x \in gh.issued}
          = UNION {{<<sid, k, st.cb[sid].out[k]>> : k \in DOMAIN st.cb[sid].out} : sid \in DOMAIN st.cb}

----------------------------------------------------------------------------
(* C16 - user sessions                                                     *)
C16_SessionIsolation ==
    \A a \in Acts(st) : a.act \in {"GetSession", "SessionBlock", "SessionNested"} =>
        LET o == Do(st, a)
        IN  gh.dev = {} =>
            IF GConnOf(gh, a.sid, a.ns) # {}
            THEN LET c == CHOOSE c \in GConnOf(gh, a.sid, a.ns) : TRUE
                 IN  \/ o.res = <<"ok", Get(gh.want, <<a.sid, a.ns>>, "empty")>>
                     \* known finding D6, exactly: the leftover of an earlier connection
                     \/ /\ "D6" \in Dev /\ ~Has(gh.want, <<a.sid, a.ns>>)
                        /\ Has(gh.stale, <<c.t, a.ns>>)
                        /\ o.res = <<"ok", gh.stale[<<c.t, a.ns>>]>>
            ELSE o.res[1] = "exc"

(* witness for the known finding: TRUE as long as nobody could observe D6  *)
D6_NotObservable == gh.stale = <<>>
D3_NotTaken == "D3" \notin gh.dev

----------------------------------------------------------------------------
(* C11 - no residual state                                                 *)
Mentions(s, t, sids) ==
    \/ t \in s.environ \/ Has(s.binbuf, t) \/ Has(s.sess, t)
    \/ DOMAIN s.cb \cap sids # {}
    \/ \E ns \in DOMAIN s.pending : Range(s.pending[ns]) \cap sids # {}
    \/ \E ns \in DOMAIN s.rooms : \E r \in DOMAIN s.rooms[ns] :
          \E x \in DOMAIN s.rooms[ns][r] : x \in sids \/ s.rooms[ns][r][x] = t

C11_NoResidue ==
    gh.dev = {} =>
        /\ st.residue = <<>>
        /\ \A t \in Transports : st.eio[t] = "closed" => ~Mentions(st, t, Get(gh.owned, t, {}))

C11_FreshWhenEmpty ==
    (gh.dev = {} /\ \A t \in Transports : st.eio[t] # "open") =>
        /\ st.rooms = <<>> /\ st.nsOrder = <<>> /\ st.pending = <<>> /\ st.cb = <<>>
        /\ st.binbuf = <<>> /\ st.sess = <<>> /\ st.environ = {}

----------------------------------------------------------------------------
(* C12 - hostile input from one transport cannot touch the others          *)
OwnedBy(s, t) ==        \* session ids that live on transport t
    UNION {{x \in DOMAIN AllMembers(s, ns) : AllMembers(s, ns)[x] = t} : ns \in DOMAIN s.rooms}

BystanderView(s, off) ==
    LET mine == OwnedBy(s, off)
    IN  [ rooms   |-> [ns \in DOMAIN s.rooms |-> [r \in DOMAIN s.rooms[ns] |->
                          [x \in DOMAIN s.rooms[ns][r] \ mine |-> s.rooms[ns][r][x]]]],
          cb      |-> [x \in DOMAIN s.cb \ mine |-> s.cb[x]],
          sess    |-> [t \in DOMAIN s.sess \ {off} |-> s.sess[t]],
          binbuf  |-> [t \in DOMAIN s.binbuf \ {off} |-> s.binbuf[t]],
          environ |-> s.environ \ {off},
          pending |-> [ns \in DOMAIN s.pending |-> SelectSeq(s.pending[ns], LAMBDA x : x \notin mine)],
          eio     |-> [t \in DOMAIN s.eio \ {off} |-> s.eio[t]] ]

(* rooms the offender leaves may disappear when it was their last member:  *)
(* compare the bystanders' memberships, not the empty containers           *)
Prune(v) ==
    [v EXCEPT !.rooms = [ns \in {n \in DOMAIN @ : \E r \in DOMAIN @[n] : DOMAIN @[n][r] # {}} |->
                            [r \in {r \in DOMAIN @[ns] : DOMAIN @[ns][r] # {}} |-> @[ns][r]]],
              !.pending = [ns \in {n \in DOMAIN @ : @[n] # <<>>} |-> @[ns]]]

(* The same claim for a frame whose reading is NOT modelled (random and     *)
(* grammar-mutated frames): s, n = the states before and after, o = what   *)
(* was observed.  Whatever the frame did to its sender, nothing was sent   *)
(* to anybody else, no handler ran for another client, only the sender's   *)
(* own callbacks completed, and the bystanders' view is unchanged.         *)
FuzzOK(s, off, o, n) ==
    LET \* its sessions before or after, and those the frame itself created (a CONNECT that
        \* was refused leaves none behind)
        mine == OwnedBy(s, off) \cup OwnedBy(n, off) \cup {SidName(k) : k \in s.nextSid..(n.nextSid - 1)}
    IN  /\ DOMAIN o.pk \subseteq {off}
        /\ \A i \in 1..Len(o.hc) : o.hc[i].sid \in mine
        /\ Prune(BystanderView(n, off)) = Prune(BystanderView(s, off))
        /\ (o.cbs # <<>> => \E x \in mine : Has(s.cb, x))
        /\ n.nextSid >= s.nextSid

C12_Isolation ==
    \A a \in Acts(st) : (IsRx(a) /\ a.act # "EioLost") =>
        LET o    == Do(st, a)
            off  == a.t
            mine == OwnedBy(st, off) \cup OwnedBy(o.s, off)
        IN  /\ DOMAIN o.pk \subseteq {off}                     \* nothing is sent to anybody else
            /\ \A i \in 1..Len(o.hc) : o.hc[i].sid \in mine    \* no handler on behalf of another client
            /\ Prune(BystanderView(o.s, off)) = Prune(BystanderView(st, off))
            /\ (o.cbs # <<>> => \E x \in mine : Has(st.cb, x)) \* only the offender's own callbacks complete
            /\ (a.act = "RxRaw" /\ a.class = "contained" => o.hc = <<>> /\ o.pk = <<>> /\ o.s = st)
            \* ... nor does a binary packet whose placeholders cannot be resolved
            /\ (a.act = "RxFrame" /\ Has(st.binbuf, a.t) /\ st.binbuf[a.t].bad => o.hc = <<>> /\ o.pk = <<>> /\ o.cbs = <<>>)
====
