-------------------------------- MODULE E2E --------------------------------
(***************************************************************************)
(* C02 - end-to-end payload transparency between the application on one    *)
(* side and the handler on the other (client <-> server, either            *)
(* direction), through packing, framing, the ordered transport, decoding   *)
(* and dispatch.                                                           *)
(*                                                                         *)
(* Values are opaque TOKENS (the harness interns every payload by strict   *)
(* deep equality: bytes # str, bool # int, 1 # 1.0, list # tuple).  What   *)
(* the application hands to emit/send/call is                              *)
(*     [k |-> "none"] | [k |-> "tuple", items |-> <<tok...>>] |            *)
(*     [k |-> "one", v |-> tok]                                            *)
(* and the rule of the statement is Pack: a tuple becomes several          *)
(* arguments, None becomes none, anything else exactly one.                *)
(*                                                                         *)
(* The machine: per direction a FIFO of messages emitted and not yet       *)
(* handled; per acknowledged emit the value travelling back.  Events of a  *)
(* recorded execution must be enabled (EvOK): a handler invocation must be *)
(* for the OLDEST message in flight in that direction, on its namespace,   *)
(* under its event name, with exactly its packed arguments; a callback /   *)
(* call() result must be the packed return value of ITS emit's handler,    *)
(* once.                                                                   *)
(***************************************************************************)
EXTENDS Naturals, Sequences, FiniteSets, TLC

CONSTANTS MaxMsgs, Toks      \* for exploring the machine itself

VARIABLE st
vars == <<st>>

Dirs == {"c2s", "s2c"}

Pack(x) == CASE x.k = "none" -> <<>> [] x.k = "tuple" -> x.items [] OTHER -> <<x.v>>

(* call(): None, the single value, or the tuple of values                  *)
Shape(args) == IF Len(args) = 0 THEN [k |-> "none"]
               ELSE IF Len(args) = 1 THEN [k |-> "one", v |-> args[1]]
               ELSE [k |-> "tuple", items |-> args]

InitSt == [ wire |-> [d \in Dirs |-> <<>>],   \* emitted, not yet handled
            back |-> <<>>,                    \* back[id] = packed return value on its way to the sender
            mode |-> <<>>,                    \* mode[id] = "cb" | "call" for acknowledged emits
            done |-> {},                      \* acknowledged emits whose callback ran / call() returned
            n    |-> 0 ]

EvOK(s, e) ==
    CASE e.ev = "Emit" -> e.id = 0 \/ e.id \notin DOMAIN s.mode
      [] e.ev = "Handled" ->
            /\ s.wire[e.dir] # <<>>
            /\ LET m == Head(s.wire[e.dir])
               IN  m.ns = e.ns /\ m.name = e.name /\ m.args = e.args      \* oldest first, same namespace, same arguments
      [] e.ev = "Callback" ->
            /\ e.id \in DOMAIN s.back /\ e.id \notin s.done /\ s.mode[e.id] = "cb"
            /\ e.args = s.back[e.id]
      [] e.ev = "CallReturned" ->
            /\ e.id \in DOMAIN s.back /\ e.id \notin s.done /\ s.mode[e.id] = "call"
            \* (a single acknowledged value that IS None cannot be told from no value)
            /\ \/ e.result = Shape(s.back[e.id])
               \/ e.result = [k |-> "none"] /\ s.back[e.id] = <<"None">>
      [] e.ev = "End" ->       \* nothing left in flight, every acknowledged emit completed exactly once
            /\ \A d \in Dirs : s.wire[d] = <<>>
            /\ DOMAIN s.mode = s.done
      [] OTHER -> FALSE

Apply(s, e) ==
    LET s1 == [s EXCEPT !.n = @ + 1] IN
    CASE e.ev = "Emit" ->
            [s1 EXCEPT !.wire[e.dir] = Append(@, [ns |-> e.ns, name |-> e.name, args |-> Pack(e.x), id |-> e.id]),
                       !.mode = IF e.id = 0 THEN @ ELSE (e.id :> e.mode) @@ @]
      [] e.ev = "Handled" ->
            LET m == Head(s.wire[e.dir])
            IN  [s1 EXCEPT !.wire[e.dir] = Tail(@),
                           !.back = IF m.id = 0 THEN @ ELSE (m.id :> Pack(e.ret)) @@ @]
      [] e.ev \in {"Callback", "CallReturned"} -> [s1 EXCEPT !.done = @ \cup {e.id}]
      [] OTHER -> s1

(* ---- the machine explored on its own: a conformant world                *)
Xs == {[k |-> "none"]} \cup {[k |-> "one", v |-> t] : t \in Toks}
      \cup {[k |-> "tuple", items |-> q] : q \in {<<>>} \cup {<<t>> : t \in Toks} \cup {<<a, b>> : a, b \in Toks}}

Events(s) ==
    {[ev |-> "Emit", dir |-> d, ns |-> ns, name |-> "e", x |-> x, id |-> i, mode |-> m] :
        d \in Dirs, ns \in {"/", "/a"}, x \in Xs, i \in {0, s.n + 1}, m \in {"cb", "call"}}
    \cup {[ev |-> "Handled", dir |-> d, ns |-> Head(s.wire[d]).ns, name |-> Head(s.wire[d]).name,
           args |-> Head(s.wire[d]).args, ret |-> r] : d \in {d \in Dirs : s.wire[d] # <<>>}, r \in Xs}
    \cup {[ev |-> "Callback", id |-> i, args |-> s.back[i]] : i \in DOMAIN s.back}
    \cup {[ev |-> "CallReturned", id |-> i, result |-> Shape(s.back[i])] : i \in DOMAIN s.back}

Init == st = InitSt
Next == st.n < MaxMsgs /\ \E e \in Events(st) : EvOK(st, e) /\ st' = Apply(st, e)
Spec == Init /\ [][Next]_vars

(* the statement on the machine: a handler only ever sees what was sent,    *)
(* completed acknowledgements were all asked for, at most once each         *)
AckOnlyIfAsked == st.done \subseteq DOMAIN st.mode /\ DOMAIN st.back \subseteq DOMAIN st.mode
ArityRule == \A x \in Xs : Len(Pack(x)) = (CASE x.k = "none" -> 0 [] x.k = "tuple" -> Len(x.items) [] OTHER -> 1)
ShapeInverse == \A q \in {<<>>} \cup {<<t>> : t \in Toks} \cup {<<a, b>> : a, b \in Toks} :
                    Pack(Shape(q)) = q
=============================================================================
