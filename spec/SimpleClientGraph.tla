------------------------- MODULE SimpleClientGraph -------------------------
(* G2 for SimpleClient: every schedule step the baton scheduler explored on *)
(* the real SimpleClient is re-executed with the spec (see SioServerGraph). *)
EXTENDS SimpleClient, Json, IOUtils

G == JsonDeserialize(IOEnv.GRAPH_FILE)
WithGhosts == IOEnv.WITH_GHOSTS = "1"
VARIABLE node
ToSet(q) == {q[i] : i \in 1..Len(q)}
Chk(b, msg) == b \/ (PrintT(msg) /\ FALSE)

NodeSt(n) ==
    LET j == G.nodes[n]
    IN  [ pcA |-> j.pcA, ak |-> j.ak, pcH |-> j.pcH, hk |-> j.hk, pcC |-> j.pcC, ck |-> j.ck,
          buf |-> j.buf, inEv |-> j.inEv, connEv |-> j.connEv, connected |-> j.connected,
          eioUp |-> j.eioUp, nsUp |-> j.nsUp, results |-> j.results, woken |-> j.woken ]

Act(e) == [th |-> e.a.th, c |-> e.a.c]

EdgeOK(i) ==
    LET e == G.edges[i]
        d == Do(st, Act(e))
        n == NodeSt(e.dst)
    IN  /\ Chk(Act(e) \in Choices(st), <<"EDGE_REJECTED", i, "not-schedulable-in-spec", Act(e)>>)
        /\ \A f \in DOMAIN n : Chk(d[f] = n[f], <<"EDGE_REJECTED", i, "state", f, "spec", d[f], "impl", n[f]>>)

AllEdgesOK == \A i \in ToSet(G.out[node]) : EdgeOK(i)
AlphabetComplete ==
    Chk({Act(G.edges[i]) : i \in ToSet(G.out[node])} = Choices(st),
        <<"ALPHABET_MISMATCH", node, "spec", Choices(st)>>)

GInit == node = 1 /\ st = NodeSt(1) /\ gh = InitGh /\ Chk(NodeSt(1) = InitSt, <<"INIT_MISMATCH", NodeSt(1), InitSt>>)
GNext == \E i \in ToSet(G.out[node]) :
            /\ node' = G.edges[i].dst
            /\ st' = NodeSt(G.edges[i].dst)
            /\ gh' = IF WithGhosts THEN GhostNext(st, gh, Act(G.edges[i])) ELSE gh
=============================================================================
