--------------------------- MODULE SioServerGraph ---------------------------
(***************************************************************************)
(* G2 - transition-graph validation.  The harness explored the REAL        *)
(* socketio.Server / AsyncServer and recorded, for every abstract state it *)
(* reached and every enabled action, the observed outputs and post-state.  *)
(* TLC re-executes every recorded edge with SioServer's own Do() and       *)
(* demands equality of the complete projected state and of all outputs;    *)
(* with WithGhosts it also evaluates every invariant of SioServer on every *)
(* implementation state (ghosts evolve by GhostNext along the              *)
(* implementation's edges) - used for trace forests, where each node has   *)
(* one history.  For exhaustive graphs the ghosts are frozen: once every   *)
(* edge is validated and the state counts agree (G3), the implementation's *)
(* graph IS the specification's graph, on which G1 checked the invariants  *)
(* for every history.                                                      *)
(***************************************************************************)
EXTENDS SioServer, Json, IOUtils

G == JsonDeserialize(IOEnv.GRAPH_FILE)
WithGhosts == IOEnv.WITH_GHOSTS = "1"

VARIABLE node
gvars == <<st, gh, node>>

ToSet(q) == {q[i] : i \in 1..Len(q)}

(* JSON node -> core state (JSON has no sets: sorted arrays)               *)
NodeSt(n) ==
    LET j == G.nodes[n]
    IN  [ eio |-> j.eio, environ |-> ToSet(j.environ), nextSid |-> j.nextSid,
          rooms |-> j.rooms, nsOrder |-> j.nsOrder, pending |-> j.pending,
          cb |-> j.cb,
          binbuf |-> j.binbuf, sess |-> j.sess, residue |-> j.residue,
          raiseDisc |-> ToSet(j.raiseDisc) ]

Chk(b, msg) == b \/ (PrintT(msg) /\ FALSE)

EdgeOK(i) ==
    LET e == G.edges[i]
        d == Do(st, e.a)
        n == NodeSt(e.dst)
    IN  IF e.a.act = "RxFuzz"
        THEN Chk(Enabled(st, e.a) /\ FuzzOK(st, e.a.t, e.out, n),
                 <<"EDGE_REJECTED", i, "an arbitrary frame of", e.a.t, "touched somebody else",
                   "packets", e.out.pk, "handler-calls", e.out.hc, "callbacks", e.out.cbs,
                   "bystanders before", Prune(BystanderView(st, e.a.t)),
                   "after", Prune(BystanderView(n, e.a.t))>>)
        ELSE
        /\ Chk(Enabled(st, e.a), <<"EDGE_REJECTED", i, "not-enabled-in-spec">>)
        /\ \A f \in DOMAIN n : Chk(d.s[f] = n[f], <<"EDGE_REJECTED", i, "state", f, "spec", d.s[f], "impl", n[f]>>)
        /\ Chk(d.pk = e.out.pk, <<"EDGE_REJECTED", i, "packets", "spec", d.pk, "impl", e.out.pk>>)
        /\ Chk(d.hc = e.out.hc, <<"EDGE_REJECTED", i, "handler-calls", "spec", d.hc, "impl", e.out.hc>>)
        /\ Chk(d.cbs = e.out.cbs, <<"EDGE_REJECTED", i, "callbacks", "spec", d.cbs, "impl", e.out.cbs>>)
        /\ Chk(d.res = e.out.res, <<"EDGE_REJECTED", i, "result", "spec", d.res, "impl", e.out.res>>)
        /\ Chk(d.bg = e.out.bg, <<"EDGE_REJECTED", i, "handlers handed to background tasks", "spec", d.bg, "impl", e.out.bg>>)
        /\ Chk(d.set = ToSet(e.out.set), <<"EDGE_REJECTED", i, "result-set", "spec", d.set, "impl", e.out.set>>)

(* every implementation edge out of this node is an edge of the spec       *)
AllEdgesOK == \A i \in ToSet(G.out[node]) : EdgeOK(i)

(* and the explorer tried exactly the actions the spec enables here        *)
AlphabetComplete ==
    Chk({G.edges[i].ai : i \in ToSet(G.out[node])}
            = {k \in 1..Len(Alphabet) : Enabled(st, Alphabet[k])},
        <<"ALPHABET_MISMATCH", node>>)

GInit == node = 1 /\ st = NodeSt(1) /\ gh = InitGh /\ Chk(NodeSt(1) = InitSt, <<"INIT_MISMATCH", NodeSt(1), InitSt>>)

GNext == \E i \in ToSet(G.out[node]) :
            LET e == G.edges[i]
            IN  /\ node' = e.dst
                /\ st' = NodeSt(e.dst)
                /\ gh' = IF WithGhosts THEN GhostNext(st, gh, e.a) ELSE gh

GSpec == GInit /\ [][GNext]_gvars
=============================================================================
