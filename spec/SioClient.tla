------------------------------ MODULE SioClient ------------------------------
(***************************************************************************)
(* The Socket.IO client (BaseClient + Client / AsyncClient) as a state     *)
(* machine over a modelled engine.io client (EioClient.tla describes the   *)
(* three-state engine the harness's FakeEio implements).                   *)
(*                                                                         *)
(* One action per public call (connect, emit, send, call, disconnect), per *)
(* frame from the server, per transport event.  connect(wait=True) and     *)
(* call() block on an event; what the server does while they wait is part  *)
(* of the action's arguments (`batches`, `during`), so the re-entrant      *)
(* executions are single, deterministic transitions.                       *)
(*                                                                         *)
(* st = core (what the harness reads off the real object + the conformant  *)
(*      server environment it plays: srvAcc, srvAns, nextSid);             *)
(* gh = ghosts in the vocabulary of properties C08 / C09.                  *)
(* Line references: src/socketio/client.py, base_client.py.                *)
(***************************************************************************)
EXTENDS Naturals, Integers, Sequences, FiniteSets, TLC

CONSTANTS
    NsH,        \* namespaces with application handlers
    HKind,      \* "fn" | "class"
    MaxAck,     \* budget of client-initiated ack ids per namespace
    MaxSid,     \* budget of session ids the server hands out
    Reconnect,  \* the reconnection option
    Alphabet,
    Dev         \* known deviations modelled (labels of known_findings.json)

VARIABLES st, gh
vars == <<st, gh>>

Put(f, k, v) == [x \in DOMAIN f \cup {k} |-> IF x = k THEN v ELSE f[x]]
Del(f, k)    == [x \in DOMAIN f \ {k} |-> f[x]]
Has(f, k)    == k \in DOMAIN f
Get(f, k, d) == IF k \in DOMAIN f THEN f[k] ELSE d
Range(f)     == {f[x] : x \in DOMAIN f}
ToSet(q)     == {q[i] : i \in 1..Len(q)}

InitSt ==
    [ eio        |-> "disconnected",  \* engine.io client state at rest
      connected  |-> FALSE,           \* Client.connected
      namespaces |-> <<>>,            \* list of <<ns, sid>> in acceptance order (dict order)
      reqNs      |-> <<>>,            \* connection_namespaces
      cb         |-> <<>>,            \* cb[ns] = [next, out : ToString(id) -> tag]
      binbuf     |-> <<>>,            \* <<>> or [p |-> partial binary packet]
      hasSid     |-> FALSE,           \* Client.sid is set
      nextSid    |-> 1,               \* environment: next session id the server hands out
      srvReq     |-> {},              \* environment: namespaces the server got a CONNECT for
      srvAcc     |-> {},              \* environment: namespaces accepted and not ended
      srvAns     |-> {},              \* environment: namespaces answered in this connection
      task       |-> FALSE ]          \* a reconnect task exists

Pkt(ty, ns, id, data) == [ty |-> ty, ns |-> ns, id |-> id, data |-> data]
M0(s) == [s |-> s, sent |-> <<>>, hc |-> <<>>, cbs |-> <<>>, callres |-> <<>>, res |-> <<"ok">>, exc |-> ""]

NsOf(s)  == {s.namespaces[i][1] : i \in 1..Len(s.namespaces)}
SidName(i) == "S" \o ToString(i)

(* eio.send(): dropped unless the engine is connected (engineio client.py   *)
(* _send_packet)                                                           *)
Send(m, p) == IF m.exc # "" \/ m.s.eio # "connected" THEN m ELSE [m EXCEPT !.sent = Append(@, p)]
Raise(m, c) == IF m.exc # "" THEN m ELSE [m EXCEPT !.exc = c]
HCall(ns, ev, args) == [h |-> HKind, ns |-> ns, ev |-> ev, args |-> args]
AddCall(m, ns, ev, args) ==
    IF m.exc # "" \/ ns \notin NsH THEN m ELSE [m EXCEPT !.hc = Append(@, HCall(ns, ev, args))]

----------------------------------------------------------------------------
(* client.py _handle_eio_disconnect (536-552) - runs inside the engine's    *)
(* disconnect notification; `engineConnected` is the engine.io state        *)
(* visible at that instant ("connected" only for a transport error)         *)
RECURSIVE DiscHandlers(_, _, _, _)
DiscHandlers(m, nss, reason, final) ==
    IF nss = <<>> THEN m
    ELSE LET ns == Head(nss)[1]
             m1 == AddCall(m, ns, "disconnect", <<reason>>)
         IN  DiscHandlers(m1, Tail(nss), reason, final)

EioDisconnected(m, reason, engineConnected) ==
    LET willReconnect == Reconnect /\ engineConnected
        m1 == IF m.s.connected
              THEN [DiscHandlers(m, m.s.namespaces, reason, ~willReconnect)
                        EXCEPT !.s.namespaces = <<>>, !.s.connected = FALSE]
              ELSE m
    IN  [m1 EXCEPT !.s.cb = <<>>, !.s.binbuf = <<>>, !.s.hasSid = FALSE,
                   !.s.task = @ \/ willReconnect,
                   !.s.eio = "disconnected", !.s.srvReq = {}, !.s.srvAcc = {}, !.s.srvAns = {}]

(* eio.disconnect() (engineio client.py 117-139) *)
EioDisconnect(m, reason) ==
    IF m.s.eio = "connected"
    THEN EioDisconnected([Send(m, Pkt("EIO_CLOSE", "/", -1, <<>>)) EXCEPT !.s.eio = "disconnecting"],
                         reason, FALSE)
    ELSE [m EXCEPT !.s.eio = "disconnected"]

----------------------------------------------------------------------------
(* frames from the server                                                  *)

(* client.py _handle_connect (368-374) *)
RxConnectStep(m, ns) ==
    LET sid == SidName(m.s.nextSid)
        m0  == [m EXCEPT !.s.nextSid = @ + 1, !.s.srvAcc = @ \cup {ns},
                         !.s.srvAns = @ \cup {ns}]
    IN  IF ns \in NsOf(m.s) THEN m0
        ELSE AddCall([m0 EXCEPT !.s.namespaces = Append(@, <<ns, sid>>)], ns, "connect", <<>>)

(* client.py _handle_error (419-433) *)
RxErrorStep(m, ns) ==
    LET m0 == [m EXCEPT !.s.srvAns = @ \cup {ns}]
        m1 == AddCall(m0, ns, "connect_error", <<"message=refused">>)
        m2 == [m1 EXCEPT !.s.namespaces = SelectSeq(@, LAMBDA x : x[1] # ns)]
    IN  IF ns = "/" THEN [m2 EXCEPT !.s.namespaces = <<>>, !.s.connected = FALSE] ELSE m2

(* client.py _handle_disconnect (376-387) *)
RxDisconnect(m, ns) ==
    LET m0 == [m EXCEPT !.s.srvAcc = @ \ {ns}]
    IN  IF ~m.s.connected THEN m0
        ELSE LET m1 == AddCall(m0, ns, "disconnect", <<"server disconnect">>)
                 m2 == [m1 EXCEPT !.s.namespaces = SelectSeq(@, LAMBDA x : x[1] # ns)]
             IN  IF m2.s.namespaces = <<>>
                 THEN EioDisconnect([m2 EXCEPT !.s.connected = FALSE], "client disconnect")
                 ELSE m2

EvResult(ev) ==
    CASE ev = "e_none" -> [k |-> "none",  v |-> <<>>]
      [] ev = "e_v"    -> [k |-> "one",   v |-> <<"v1">>]
      [] ev = "e_z"    -> [k |-> "one",   v |-> <<"z0">>]
      [] ev = "e_list" -> [k |-> "one",   v |-> <<"l1">>]
      [] ev = "e_dict" -> [k |-> "one",   v |-> <<"d1">>]
      [] ev = "e_tup0" -> [k |-> "tuple", v |-> <<>>]
      [] ev = "e_tup1" -> [k |-> "tuple", v |-> <<"v1">>]
      [] ev = "e_tup2" -> [k |-> "tuple", v |-> <<"v1", "v2">>]
      [] ev = "e_bin"  -> [k |-> "one",   v |-> <<"b1">>]
      [] ev = "e_tbin" -> [k |-> "tuple", v |-> <<"v1", "b1">>]
      [] ev = "e_ddb"  -> [k |-> "one",   v |-> <<"ddb1">>]
      [] ev = "e_f"    -> [k |-> "one",   v |-> <<"f1">>]     \* falsy but meaningful results
      [] ev = "e_es"   -> [k |-> "one",   v |-> <<"es">>]
      [] ev = "e_el"   -> [k |-> "one",   v |-> <<"el">>]
      [] ev = "e_ed"   -> [k |-> "one",   v |-> <<"ed">>]
      [] ev = "e_h"    -> [k |-> "one",   v |-> <<"h1">>]
      [] ev = "e_raise"-> [k |-> "raise", v |-> <<>>]
      [] OTHER         -> [k |-> "unh",   v |-> <<>>]
Pack(r) == IF r.k \in {"none", "unh"} THEN <<>> ELSE r.v
BinaryTok(x) == x \in {"b1", "b2", "db1", "ddb1"}
HasBinary(q) == \E i \in 1..Len(q) : BinaryTok(q[i])

(* client.py _handle_event (389-403): the client acknowledges every event   *)
(* that carries an id, handler or not                                      *)
HandleEvent(m, ns, id, ev, args) ==
    LET r  == IF ns \in NsH THEN EvResult(ev) ELSE [k |-> "unh", v |-> <<>>]
        m1 == IF r.k = "unh" THEN m ELSE AddCall(m, ns, ev, args)
    IN  IF r.k = "raise" THEN Raise(m1, "Boom")
        ELSE IF id >= 0
        THEN Send(m1, Pkt(IF HasBinary(Pack(r)) THEN "BINARY_ACK" ELSE "ACK", ns, id, Pack(r)))
        ELSE m1

(* client.py _handle_ack (405-417) *)
HandleAck(m, ns, id, args) ==
    LET c == Get(m.s.cb, ns, [next |-> 1, out |-> <<>>])
        k == ToString(id)
    IN  IF m.exc # "" THEN m
        ELSE IF Has(m.s.cb, ns) /\ Has(c.out, k)
        THEN LET m1 == [m EXCEPT !.s.cb = Put(@, ns, [c EXCEPT !.out = Del(@, k)])]
             IN  IF c.out[k] = "call"      \* the internal callback of call(): not an application callback
                 THEN [m1 EXCEPT !.callres = Append(@, [id |-> id, args |-> args])]
                 ELSE [m1 EXCEPT !.cbs = Append(@, [tag |-> c.out[k], args |-> args])]
        ELSE m

RxBinHeader(m, ty, ns, id, ev, n) ==
    [m EXCEPT !.s.binbuf = [p |-> [ty |-> ty, ns |-> ns, id |-> id, ev |-> ev,
                                   owed |-> n, atts |-> <<>>]]]

RxAttachment(m, b) ==
    LET p == m.s.binbuf.p
    IN  IF p.owed <= Len(p.atts) THEN Raise(m, "ValueError")
        ELSE LET atts == Append(p.atts, b)
             IN  IF Len(atts) < p.owed
                 THEN [m EXCEPT !.s.binbuf = [p |-> [p EXCEPT !.atts = atts]]]
                 ELSE LET m1 == [m EXCEPT !.s.binbuf = <<>>]
                      IN  IF p.ty = "BINARY_EVENT" THEN HandleEvent(m1, p.ns, p.id, p.ev, atts)
                          ELSE HandleAck(m1, p.ns, p.id, atts)

----------------------------------------------------------------------------
(* API                                                                     *)
AuthData(a) == CASE a = "val" -> <<"tok=A1">> [] a = "callable" -> <<"tok=A2">> [] OTHER -> <<>>

RECURSIVE SendConnects(_, _, _)
SendConnects(m, nss, auth) ==
    IF nss = <<>> THEN m
    ELSE SendConnects([Send(m, Pkt("CONNECT", Head(nss), -1, AuthData(auth)))
                          EXCEPT !.s.srvReq = @ \cup {Head(nss)}], Tail(nss), auth)

RECURSIVE Replies(_, _)
Replies(m, batch) ==
    IF batch = <<>> THEN m
    ELSE Replies(IF Head(batch).k = "ok" THEN RxConnectStep(m, Head(batch).ns)
                 ELSE RxErrorStep(m, Head(batch).ns), Tail(batch))

(* the wait loop of connect() (client.py 159-163): one batch of server     *)
(* replies per wake-up; an empty batch is the timeout                      *)
RECURSIVE WaitLoop(_, _)
WaitLoop(m, bs) ==
    IF bs = <<>> \/ Head(bs) = <<>> THEN m
    ELSE LET m1 == Replies(m, Head(bs))
         IN  IF NsOf(m1.s) = ToSet(m1.s.reqNs) THEN m1 ELSE WaitLoop(m1, Tail(bs))

RECURSIVE SendDisconnects(_, _)
SendDisconnects(m, nss) ==
    IF nss = <<>> THEN m
    ELSE SendDisconnects(Send(m, Pkt("DISCONNECT", Head(nss)[1], -1, <<>>)), Tail(nss))

(* client.py disconnect (302-309) *)
Disconnect(m) == EioDisconnect(SendDisconnects(m, m.s.namespaces), "client disconnect")

RECURSIVE ConnErrHandlers(_, _)
ConnErrHandlers(m, nss) ==
    IF nss = <<>> THEN m
    ELSE ConnErrHandlers(AddCall(m, Head(nss), "connect_error", <<"Connection refused by the server">>), Tail(nss))

(* client.py connect (73-171) *)
Connect(m, a) ==
    IF m.s.connected THEN Raise(m, "ConnectionError")
    ELSE
    LET m1 == [m EXCEPT !.s.reqNs = a.nss, !.s.namespaces = <<>>]
    IN  IF m.s.eio # "disconnected" THEN Raise(m1, "ValueError")
        ELSE IF a.eio = "fail" THEN Raise(ConnErrHandlers(m1, a.nss), "ConnectionError")
        ELSE
        LET m2 == SendConnects([m1 EXCEPT !.s.eio = "connected", !.s.hasSid = TRUE], a.nss, a.auth)
        IN  IF ~a.wait THEN [m2 EXCEPT !.s.connected = TRUE]
            ELSE LET m3 == WaitLoop(m2, a.batches)
                 IN  IF NsOf(m3.s) = ToSet(m3.s.reqNs)
                     THEN [m3 EXCEPT !.s.connected = TRUE]
                     ELSE \* failed: disconnect(), forget the partial acceptances, raise
                          Raise([Disconnect(m3) EXCEPT !.s.namespaces = <<>>], "ConnectionError")

EmitData(d) == IF d = "none" THEN <<>> ELSE IF d = "tup2" THEN <<"v1", "v2">> ELSE <<d>>

(* client.py emit (193-235) *)
Emit(m, ns, ev, data, cbTag) ==
    IF ns \notin NsOf(m.s) THEN Raise(m, "BadNamespaceError")
    ELSE IF cbTag = ""
    THEN Send(m, Pkt(IF HasBinary(EmitData(data)) THEN "BINARY_EVENT" ELSE "EVENT", ns, -1, <<ev>> \o EmitData(data)))
    ELSE LET c  == Get(m.s.cb, ns, [next |-> 1, out |-> <<>>])
             m1 == [m EXCEPT !.s.cb = Put(@, ns, [next |-> c.next + 1, out |-> Put(c.out, ToString(c.next), cbTag)])]
         IN  Send(m1, Pkt(IF HasBinary(EmitData(data)) THEN "BINARY_EVENT" ELSE "EVENT", ns, c.next, <<ev>> \o EmitData(data)))

(* client.py call (258-300): emit, then wait while `during` happens        *)
RECURSIVE During(_, _)
During(m, steps) ==
    IF steps = <<>> THEN m
    ELSE LET x == Head(steps)
             m1 == IF x.act = "RxAck" THEN (IF m.s.eio = "connected" THEN HandleAck(m, x.ns, x.id, x.args) ELSE m)
                   ELSE IF m.s.eio = "connected" THEN EioDisconnected(m, "transport error", TRUE) ELSE m
         IN  During(m1, Tail(steps))

Call(m, a) ==
    LET m1 == Emit(m, a.ns, a.ev, "v1", "call")
    IN  IF m1.exc # "" THEN m1
        ELSE LET m2   == During(m1, a.during)
                 myid == m1.sent[Len(m1.sent)].id
                 mine == SelectSeq(m2.callres, LAMBDA x : x.id = myid)   \* only its own acknowledgement
             IN  IF mine = <<>> THEN Raise(m2, "TimeoutError")
                 ELSE LET args == mine[1].args
                      IN  [m2 EXCEPT !.res = IF Len(args) = 0 THEN <<"ok", "none">>
                                             ELSE IF Len(args) = 1 THEN <<"ok", "one", args[1]>>
                                             ELSE <<"ok", "tuple">> \o args]

----------------------------------------------------------------------------
IsRx(a) == a.act \in {"RxConnect", "RxConnectError", "RxDisconnect", "RxEvent", "RxAck", "RxAckDup", "RxFrame", "RxAttThenEvent",
                      "TransportError", "ServerClose"}

Step(m, a) ==
    CASE a.act = "Connect"        -> Connect(m, a)
      [] a.act = "RxConnect"      -> RxConnectStep(m, a.ns)
      [] a.act = "RxConnectError" -> RxErrorStep(m, a.ns)
      [] a.act = "RxDisconnect"   -> RxDisconnect(m, a.ns)
      [] a.act = "RxEvent"        -> HandleEvent(m, a.ns, a.id, a.ev, a.args)
      [] a.act = "RxAck"          -> HandleAck(m, a.ns, a.id, a.args)
      [] a.act = "RxAckDup"       -> HandleAck(HandleAck(m, a.ns, a.id, a.args), a.ns, a.id, a.args)
      [] a.act = "RxFrame"        ->
            IF a.kind = "hdr" THEN RxBinHeader(m, a.ty, a.ns, a.id, a.ev, a.n)
            ELSE IF Has(m.s.binbuf, "p") THEN RxAttachment(m, a.b) ELSE Raise(m, "ValueError")
      \* the last attachment of a binary packet and, right behind it, an EVENT: on asyncio each
      \* frame is a task of its own and the second is processed while the first one's
      \* (coroutine) handler or callback is suspended - the outcome is that of the sequence
      [] a.act = "RxAttThenEvent" -> HandleEvent(RxAttachment(m, a.b), a.ns, a.id, a.ev, a.args)
      [] a.act = "Emit"           -> Emit(m, a.ns, a.ev, a.data, a.cb)
      [] a.act = "Send"           -> Emit(m, a.ns, "message", a.data, "")
      [] a.act = "Call"           -> Call(m, a)
      [] a.act = "Disconnect"     -> Disconnect(m)
      [] a.act = "TransportError" -> EioDisconnected(m, "transport error", TRUE)
      [] a.act = "ServerClose"    -> EioDisconnect(m, "server disconnect")

Do(s, a) ==
    LET m == Step(M0(s), a)
    IN  IF m.exc = "" THEN m
        ELSE [m EXCEPT !.res = <<IF IsRx(a) THEN "contained" ELSE "exc", m.exc>>]

(* The server environment is conformant: it answers only requested         *)
(* namespaces, once each, and ends / uses only namespaces it accepted.     *)
Enabled(s, a) ==
    CASE a.act = "Connect" -> a.wait => s.nextSid + Len(a.nss) <= MaxSid + 1
      [] a.act \in {"RxConnect", "RxConnectError"} ->
            s.eio = "connected" /\ a.ns \in s.srvReq /\ a.ns \notin s.srvAns
            /\ s.nextSid <= MaxSid /\ ~Has(s.binbuf, "p")
      [] a.act \in {"RxDisconnect", "RxEvent", "RxAck", "RxAckDup"} ->
            s.eio = "connected" /\ a.ns \in s.srvAcc /\ ~Has(s.binbuf, "p")
      [] a.act = "RxFrame" ->
            s.eio = "connected" /\ (a.kind = "hdr" => a.ns \in s.srvAcc /\ ~Has(s.binbuf, "p"))
      [] a.act = "RxAttThenEvent" ->
            /\ s.eio = "connected" /\ a.ns \in s.srvAcc
            /\ Has(s.binbuf, "p") /\ Len(s.binbuf.p.atts) + 1 = s.binbuf.p.owed
      [] a.act \in {"TransportError", "ServerClose"} -> s.eio = "connected"
      [] a.act = "Emit" -> a.cb # "" => \A x \in DOMAIN s.cb : s.cb[x].next <= MaxAck
      [] a.act = "Call" -> (\A x \in DOMAIN s.cb : s.cb[x].next <= MaxAck) /\ ~Has(s.binbuf, "p")
      [] OTHER -> TRUE

----------------------------------------------------------------------------
(* Ghosts                                                                  *)
InitGh == [ druns |-> <<>>,     \* disconnect handler runs per namespace in the current connection epoch
            cruns |-> <<>>,     \* connect handler runs per namespace in the current epoch
            full  |-> FALSE,    \* every requested namespace was accepted at connect time
            last  |-> "none",   \* how the last connect() ended: full / failed / nowait / none
            issued |-> {} ]     \* [ns, id, tag] client-initiated acks outstanding

CountEv(hc, ev) ==
    LET nss == {hc[i].ns : i \in {k \in 1..Len(hc) : hc[k].ev = ev}}
    IN  [n \in nss |-> Cardinality({k \in 1..Len(hc) : hc[k].ev = ev /\ hc[k].ns = n})]
AddCounts(f, g) == [x \in DOMAIN f \cup DOMAIN g |-> Get(f, x, 0) + Get(g, x, 0)]

GhostNext(s, g, a) ==
    LET o  == Do(s, a)
        g0 == IF a.act = "Connect" /\ ~s.connected /\ s.eio = "disconnected"
              THEN [g EXCEPT !.druns = <<>>, !.cruns = <<>>, !.full = FALSE]   \* a new epoch
              ELSE g
        g1 == [g0 EXCEPT !.druns = AddCounts(@, CountEv(o.hc, "disconnect")),
                         !.cruns = AddCounts(@, CountEv(o.hc, "connect"))]
        g2 == IF o.s.eio = "disconnected" THEN [g1 EXCEPT !.issued = {}] ELSE
              CASE a.act = "Emit" /\ o.exc = "" /\ Len(o.sent) > 0 /\ o.sent[Len(o.sent)].id >= 0 ->
                      [g1 EXCEPT !.issued = @ \cup {[ns |-> a.ns, id |-> o.sent[Len(o.sent)].id, tag |-> a.cb]}]
                [] a.act = "Call" /\ o.exc = "TimeoutError" /\ Len(o.sent) > 0 ->   \* never answered: stays outstanding
                      [g1 EXCEPT !.issued = {x \in @ : ~\E i \in 1..Len(a.during) :
                                                a.during[i].act = "RxAck" /\ a.during[i].ns = x.ns /\ a.during[i].id = x.id}
                                            \cup {[ns |-> a.ns, id |-> o.sent[1].id, tag |-> "call"]}]
                [] a.act = "Call" /\ Len(o.sent) > 0 ->
                      [g1 EXCEPT !.issued = {x \in @ : ~\E i \in 1..Len(a.during) :
                                                a.during[i].act = "RxAck" /\ a.during[i].ns = x.ns /\ a.during[i].id = x.id}]
                [] a.act \in {"RxAck", "RxAckDup"} -> [g1 EXCEPT !.issued = {x \in @ : ~(x.ns = a.ns /\ x.id = a.id)}]
                [] (a.act = "RxAttThenEvent" \/ (a.act = "RxFrame" /\ a.kind = "att")) /\ Has(s.binbuf, "p") ->
                      LET p == s.binbuf.p
                      IN  IF p.ty = "BINARY_ACK" /\ Len(p.atts) + 1 = p.owed
                          THEN [g1 EXCEPT !.issued = {x \in @ : ~(x.ns = p.ns /\ x.id = p.id)}]
                          ELSE g1
                [] OTHER -> g1
    IN  [g2 EXCEPT !.full = IF a.act = "Connect" THEN (o.exc = "" /\ a.wait) ELSE @,
                   !.last = IF a.act # "Connect" THEN @
                            ELSE IF o.exc = "" THEN (IF a.wait THEN "full" ELSE "nowait")
                            ELSE IF a.wait /\ a.eio = "ok" /\ ~s.connected /\ s.eio = "disconnected"
                            THEN "failed" ELSE @]

Init == st = InitSt /\ gh = InitGh
Acts(s) == {Alphabet[i] : i \in {k \in 1..Len(Alphabet) : Enabled(s, Alphabet[k])}}
Next == \E a \in Acts(st) : st' = Do(st, a).s /\ gh' = GhostNext(st, gh, a)
Spec == Init /\ [][Next]_vars

----------------------------------------------------------------------------
TypeOK ==
    /\ st.eio \in {"disconnected", "connected"}
    /\ st.connected => st.eio = "connected"

(* C08 ------------------------------------------------------------------- *)
(* after a successful connect(wait=True) the client mirrors the server      *)
C08_Mirror ==
    gh.full => /\ NsOf(st) = st.srvAcc
               /\ st.connected = (st.srvAcc # {})

(* a connection that is over leaves nothing behind                          *)
C08_FullyDisconnected ==
    st.eio = "disconnected" =>
        /\ ~st.connected /\ st.binbuf = <<>> /\ ~st.hasSid
        \* after a connect(wait=True) that failed, or a fully accepted connection that ended
        \* (with wait=False and a partial acceptance the statement promises nothing)
        /\ (gh.last \in {"full", "failed"} => st.namespaces = <<>> /\ st.cb = <<>>)

C08_ConnectOutcome ==
    \A a \in Acts(st) : a.act = "Connect" =>
        LET o == Do(st, a)
        IN  (~st.connected /\ st.eio = "disconnected" /\ a.eio = "ok") =>
            \* one CONNECT per requested namespace, carrying the auth payload
            /\ SelectSeq(o.sent, LAMBDA p : p.ty = "CONNECT")
                 = [i \in 1..Len(a.nss) |-> Pkt("CONNECT", a.nss[i], -1, AuthData(a.auth))]
            /\ (a.wait =>
                  /\ (o.exc = "" <=> NsOf(o.s) = ToSet(a.nss))
                  /\ (o.exc # "" => o.exc = "ConnectionError" /\ o.s.eio = "disconnected" /\ ~o.s.connected))

C08_BadNamespace ==
    \A a \in Acts(st) : a.act \in {"Emit", "Send", "Call"} =>
        LET o == Do(st, a)
        IN  a.ns \notin NsOf(st) => o.exc = "BadNamespaceError" /\ o.sent = <<>> /\ o.s = st

C08_HandlersOnce ==     \* connect handler once per accepted namespace; disconnect once per namespace
    /\ \A ns \in DOMAIN gh.cruns : gh.cruns[ns] <= 1
    /\ gh.full => \A ns \in DOMAIN gh.druns : gh.druns[ns] <= 1
    /\ (gh.full /\ st.eio = "disconnected") =>
            \A ns \in ToSet(st.reqNs) \cap NsH : Get(gh.druns, ns, 0) = 1

(* C09 ------------------------------------------------------------------- *)
C09_EventDispatch ==
    \A a \in Acts(st) : a.act = "RxEvent" =>
        LET o == Do(st, a)
            r == IF a.ns \in NsH THEN EvResult(a.ev) ELSE [k |-> "unh", v |-> <<>>]
        IN  /\ o.hc = IF r.k = "unh" THEN <<>> ELSE <<HCall(a.ns, a.ev, a.args)>>
            /\ IF a.id >= 0 /\ r.k # "raise"
               THEN o.sent = <<Pkt(IF HasBinary(Pack(r)) THEN "BINARY_ACK" ELSE "ACK", a.ns, a.id, Pack(r))>>
               ELSE o.sent = <<>>
            /\ o.s = st

C09_IssuedIdUnique ==
    \A a \in Acts(st) : (a.act = "Emit" /\ a.cb # "" /\ a.ns \in NsOf(st)) =>
        LET o == Do(st, a)
        IN  /\ Len(o.sent) = 1 /\ o.sent[1].id >= 1
            /\ ~\E x \in gh.issued : x.ns = a.ns /\ x.id = o.sent[1].id

C09_AckOutcome ==
    \A a \in Acts(st) : a.act \in {"RxAck", "RxAckDup"} =>
        LET o    == Do(st, a)
            mine == {x \in gh.issued : x.ns = a.ns /\ x.id = a.id}
        IN  /\ o.res = <<"ok">> /\ o.hc = <<>> /\ o.sent = <<>>
            /\ IF mine # {}
               THEN LET x == CHOOSE x \in mine : TRUE
                    IN  o.cbs = IF x.tag = "call" THEN <<>> ELSE <<[tag |-> x.tag, args |-> a.args]>>
               ELSE o.cbs = <<>> /\ o.s = st

C09_IssuedMatchesCore ==
    {<<x.ns, ToString(x.id), x.tag>> : x \in gh.issued}
      = UNION {{<<ns, k, st.cb[ns].out[k]>> : k \in DOMAIN st.cb[ns].out} : ns \in DOMAIN st.cb}

=============================================================================
