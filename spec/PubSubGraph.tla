---------------------------- MODULE PubSubGraph ----------------------------
(***************************************************************************)
(* G2 for PubSub.tla: TLC re-executes every edge recorded from N real      *)
(* socketio servers (threaded or asyncio) joined by the harness's          *)
(* in-memory channel, with PubSub's own Do(), and demands equality of the  *)
(* complete projected cluster state (every host's manager, the channel     *)
(* contents as unpickled messages, the cursors, the listeners' liveness)   *)
(* and of all outputs.                                                     *)
(***************************************************************************)
EXTENDS PubSub, Json, IOUtils

G == JsonDeserialize(IOEnv.GRAPH_FILE)
WithGhosts == IOEnv.WITH_GHOSTS = "1"     \* trace forests: ghosts evolve along the recorded histories

VARIABLE node
gvars == <<st, gh, node>>

ToSet(q) == {q[i] : i \in 1..Len(q)}

HostSt(j) ==
    [ eio |-> j.eio, environ |-> ToSet(j.environ), nextSid |-> j.nextSid,
      rooms |-> j.rooms, nsOrder |-> j.nsOrder, pending |-> j.pending, cb |-> j.cb,
      binbuf |-> j.binbuf, sess |-> j.sess, residue |-> j.residue,
      raiseDisc |-> ToSet(j.raiseDisc) ]

NodeSt(n) ==
    LET j == G.nodes[n]
    IN  [ hs |-> [h \in DOMAIN j.hs |-> HostSt(j.hs[h])], chan |-> j.chan, pos |-> j.pos,
          alive |-> j.alive, cbRaise |-> j.cbRaise ]

Chk(b, msg) == b \/ (PrintT(msg) /\ FALSE)

EdgeOK(i) ==
    LET e == G.edges[i]
        d == Do(st, e.a)
        n == NodeSt(e.dst)
    IN  /\ Chk(Enabled(st, e.a), <<"EDGE_REJECTED", i, "not-enabled-in-spec">>)
        /\ \A h \in Hosts : \A f \in DOMAIN n.hs[h] :
              Chk(d.hs[h][f] = n.hs[h][f], <<"EDGE_REJECTED", i, "state", h, f, "spec", d.hs[h][f], "impl", n.hs[h][f]>>)
        /\ Chk(d.chan = n.chan, <<"EDGE_REJECTED", i, "channel", "spec", d.chan, "impl", n.chan>>)
        /\ Chk(d.pos = n.pos, <<"EDGE_REJECTED", i, "cursors", "spec", d.pos, "impl", n.pos>>)
        /\ Chk(d.alive = n.alive, <<"EDGE_REJECTED", i, "listener-alive", "spec", d.alive, "impl", n.alive>>)
        /\ Chk(d.cbRaise = n.cbRaise, <<"EDGE_REJECTED", i, "cbRaise">>)
        /\ Chk(d.pk = e.out.pk, <<"EDGE_REJECTED", i, "packets", "spec", d.pk, "impl", e.out.pk>>)
        /\ Chk(d.hc = e.out.hc, <<"EDGE_REJECTED", i, "handler-calls", "spec", d.hc, "impl", e.out.hc>>)
        /\ Chk(d.cbs = e.out.cbs, <<"EDGE_REJECTED", i, "callbacks", "spec", d.cbs, "impl", e.out.cbs>>)
        /\ Chk(d.res = e.out.res, <<"EDGE_REJECTED", i, "result", "spec", d.res, "impl", e.out.res>>)
        /\ Chk(d.set = ToSet(e.out.set), <<"EDGE_REJECTED", i, "result-set", "spec", d.set, "impl", e.out.set>>)

AllEdgesOK == \A i \in ToSet(G.out[node]) : EdgeOK(i)

AlphabetComplete ==
    Chk({G.edges[i].ai : i \in ToSet(G.out[node])}
            = {k \in 1..Len(Alphabet) : Enabled(st, Alphabet[k])},
        <<"ALPHABET_MISMATCH", node>>)

GInit == node = 1 /\ st = NodeSt(1) /\ gh = InitGh /\ Chk(NodeSt(1) = InitSt, <<"INIT_MISMATCH", NodeSt(1), InitSt>>)

GNext == \E i \in ToSet(G.out[node]) :
            LET e == G.edges[i]
            IN  /\ node' = e.dst
                /\ st' = NodeSt(e.dst)
                /\ gh' = IF WithGhosts THEN GhostNext(st, gh, e.a) ELSE gh

GSpec == GInit /\ [][GNext]_gvars
=============================================================================
