---------------------------- MODULE SimpleClient ----------------------------
(***************************************************************************)
(* C19 - the hand-off inside socketio.SimpleClient (simple_client.py):     *)
(*   handler thread   on_event:  input_buffer.append(e); input_event.set() *)
(*   connection       disconnect: connected_event.clear()                  *)
(*                    connect:    connected = True;  connected_event.set() *)
(*                    final:      connected = False; connected_event.set() *)
(*   application      receive(timeout) 159-181, emit() 124-131             *)
(* Every thread has a program counter whose labels are the Event / buffer  *)
(* operations the code performs (the granularity of the property); the     *)
(* pc names the operation the thread performs NEXT.  A step executes that  *)
(* operation and runs the thread up to its next operation.  A wait on a    *)
(* clear flag blocks; a finite wait may instead time out.                  *)
(*                                                                         *)
(* The same module is bound to the real class: the harness replaces the    *)
(* instance's two Events and its buffer by objects that park the thread    *)
(* before each operation (baton scheduler) and explores every schedule;    *)
(* SimpleClientGraph.tla re-executes every explored step.                  *)
(***************************************************************************)
EXTENDS Naturals, Sequences, FiniteSets, TLC

CONSTANTS
    NArr,       \* number of events the server sends
    App,        \* the application's calls: <<[op |-> "receive", to |-> BOOLEAN]>> / [op |-> "emit", to |-> FALSE]
    Conn,       \* what happens to the connection: <<"drop", "reconnect", "refail", "final", "giveup">>
    Atomic,     \* FALSE: threads, pre-emption at every Event / buffer operation (SimpleClient)
                \* TRUE: asyncio (AsyncSimpleClient): a task runs until it awaits a clear
                \*       event; the handler is atomic; set() latches the waiter's wake-up
    Dev         \* known deviations modelled (known_findings.json); {} = the intended design

VARIABLES st, gh
vars == <<st, gh>>

InitSt ==
    [ pcA |-> "start", ak |-> 0, pcH |-> "start", hk |-> 0, pcC |-> "start", ck |-> 0,
      buf |-> <<>>, inEv |-> FALSE, connEv |-> TRUE, connected |-> TRUE,
      eioUp |-> TRUE, nsUp |-> TRUE, results |-> <<>>,
      woken |-> FALSE ]     \* asyncio: the waiter of the event A is parked on has been woken (set() was
                            \* called); it will return from the wait even if the flag is cleared again

ToStr(n) == ToString(n)

(* first operation of the application's call number k (1-based) *)
FirstOp(k) == IF k > Len(App) THEN "done"
              ELSE IF App[k].op = "receive" THEN "buf.len" ELSE "conn.wait"

EndCall(s, r) ==    \* the current call returns / raises r; the thread runs on to the next call
    [s EXCEPT !.results = Append(@, r), !.ak = @ + 1, !.pcA = FirstOp(s.ak + 2)]

CurOp(s) == App[s.ak + 1]

(* ---- application thread ------------------------------------------------ *)
StepA(s0, c) ==
    LET s == [s0 EXCEPT !.woken = FALSE] IN
    CASE s.pcA = "start" -> [s EXCEPT !.pcA = FirstOp(1)]
      [] s.pcA = "buf.len" ->                      \* `while not self.input_buffer`
            IF s.buf # <<>> THEN [s EXCEPT !.pcA = "buf.pop"] ELSE [s EXCEPT !.pcA = "conn.wait"]
      [] s.pcA = "conn.wait" ->
            \* Intended design: receive() reports an error only while no event is
            \* available.  Known finding D9: the code checked the buffer earlier (at
            \* "buf.len") and does not look again before raising.
            IF "D9" \notin Dev /\ CurOp(s).op = "receive" /\ s.buf # <<>>
                 /\ (c = "timeout" \/ ~s.connected)
            THEN [s EXCEPT !.pcA = "buf.pop"]
            ELSE IF c = "timeout" THEN EndCall(s, <<"exc", "TimeoutError">>)
            ELSE IF ~s.connected THEN EndCall(s, <<"exc", "DisconnectedError">>)
            ELSE IF CurOp(s).op = "receive" THEN [s EXCEPT !.pcA = "inp.wait"]
            ELSE \* emit: client.emit() succeeds iff the namespace is connected, else retry
                 IF s.nsUp THEN EndCall(s, <<"ok">>) ELSE s
      [] s.pcA = "inp.wait" ->
            IF c = "timeout" /\ "D9" \notin Dev /\ s.buf # <<>> /\ s.pcH # "inp.set"
            THEN [s EXCEPT !.pcA = "buf.pop"]
            ELSE IF c = "timeout" THEN EndCall(s, <<"exc", "TimeoutError">>)
            ELSE [s EXCEPT !.pcA = "inp.clear"]
      [] s.pcA = "inp.clear" -> [s EXCEPT !.inEv = FALSE, !.pcA = "buf.len"]
      [] s.pcA = "buf.pop" ->
            EndCall([s EXCEPT !.buf = Tail(@)], <<"ok", "ev", Head(s.buf)>>)

BlockedA(s) ==
    /\ ~s.woken
    /\ \/ s.pcA = "conn.wait" /\ ~s.connEv
       \/ s.pcA = "inp.wait" /\ ~s.inEv
CanTimeoutA(s) == s.pcA \in {"conn.wait", "inp.wait"} /\ CurOp(s).to

(* ---- handler thread ---------------------------------------------------- *)
StepH(s) ==
    CASE s.pcH = "start" -> [s EXCEPT !.pcH = IF NArr > 0 THEN "h.arrive" ELSE "done"]
      [] s.pcH = "h.arrive" -> [s EXCEPT !.pcH = "buf.append"]
      [] s.pcH = "buf.append" -> [s EXCEPT !.buf = Append(@, ToStr(s.hk + 1)), !.pcH = "inp.set"]
      [] s.pcH = "inp.set" ->
            [s EXCEPT !.inEv = TRUE, !.hk = @ + 1,
                      !.woken = @ \/ (Atomic /\ s.pcA = "inp.wait" /\ ~s.inEv),
                      !.pcH = IF s.hk + 1 < NArr THEN "h.arrive" ELSE "done"]
BlockedH(s) == s.pcH = "h.arrive" /\ ~s.eioUp      \* nothing arrives while the transport is down

(* ---- connection thread ------------------------------------------------- *)
NextC(s) == IF s.ck + 1 < Len(Conn) THEN "c.next" ELSE "done"
StepC(s) ==
    CASE s.pcC = "start" -> [s EXCEPT !.pcC = IF Len(Conn) > 0 THEN "c.next" ELSE "done"]
      [] s.pcC = "c.next" ->
            (LET op == Conn[s.ck + 1]
             IN  CASE op = "drop"      -> [s EXCEPT !.pcC = "conn.clear"]
                   [] op = "final"     -> [s EXCEPT !.eioUp = FALSE, !.pcC = "conn.clear"]
                   [] op = "reconnect" -> [s EXCEPT !.eioUp = TRUE, !.nsUp = TRUE, !.connected = TRUE,
                                                    !.pcC = "conn.set"]
                   \* a reconnection attempt that FAILS (nothing changes, nobody is told), then,
                   \* as a step of its own, the attempt that succeeds
                   [] op = "refail"    -> [s EXCEPT !.pcC = "c.retry"]
                   [] op = "giveup"    -> [s EXCEPT !.connected = FALSE, !.pcC = "conn.set"])
      [] s.pcC = "c.retry" ->
            [s EXCEPT !.eioUp = TRUE, !.nsUp = TRUE, !.connected = TRUE, !.pcC = "conn.set"]
      [] s.pcC = "conn.clear" ->
            (IF Conn[s.ck + 1] = "drop"
             THEN [s EXCEPT !.connEv = FALSE, !.eioUp = FALSE, !.nsUp = FALSE,
                            !.ck = @ + 1, !.pcC = NextC(s)]
             ELSE [s EXCEPT !.connEv = FALSE, !.connected = FALSE, !.pcC = "conn.set"])   \* final
      [] s.pcC = "conn.set" ->
            [s EXCEPT !.connEv = TRUE,
                      !.woken = @ \/ (Atomic /\ s.pcA = "conn.wait" /\ ~s.connEv),
                      !.nsUp = IF Conn[s.ck + 1] \in {"reconnect", "refail"} THEN TRUE ELSE FALSE,
                      !.ck = @ + 1, !.pcC = NextC(s)]

(* ---- scheduler choices -------------------------------------------------- *)
Choices(s) ==
    (IF s.pcA # "done" /\ ~BlockedA(s) THEN {[th |-> "A", c |-> "run"]} ELSE {})
    \cup (IF s.pcA # "done" /\ BlockedA(s) /\ CanTimeoutA(s) THEN {[th |-> "A", c |-> "timeout"]} ELSE {})
    \cup (IF s.pcH # "done" /\ ~BlockedH(s) THEN {[th |-> "H", c |-> "run"]} ELSE {})
    \cup (IF s.pcC # "done" THEN {[th |-> "C", c |-> "run"]} ELSE {})

Do1(s, a) == CASE a.th = "A" -> StepA(s, a.c) [] a.th = "H" -> StepH(s) [] a.th = "C" -> StepC(s)

(* asyncio: a task keeps running until it awaits something that is not     *)
(* ready (A: a wait on a clear event), reaches its next external stimulus  *)
(* (H: the next arrival, C: the next connection event) or ends             *)
RECURSIVE SettleA(_), SettleH(_), SettleC(_)
SettleA(s) == IF s.pcA = "done" \/ (s.pcA \in {"conn.wait", "inp.wait"} /\ BlockedA(s)) THEN s
              ELSE LET s2 == StepA(s, "run") IN IF s2 = s THEN s ELSE SettleA(s2)
SettleH(s) == IF s.pcH \in {"done", "h.arrive"} THEN s ELSE SettleH(StepH(s))
SettleC(s) == IF s.pcC \in {"done", "c.next", "c.retry"} THEN s ELSE SettleC(StepC(s))

Do(s, a) == IF ~Atomic THEN Do1(s, a)
            ELSE CASE a.th = "A" -> SettleA(StepA(s, a.c))
                   [] a.th = "H" -> SettleH(StepH(s))
                   [] a.th = "C" -> SettleC(StepC(s))

(* ---- ghosts ------------------------------------------------------------ *)
InitGh == [ arrived |-> <<>>,       \* every event the handler appended, in order
            finalEnded |-> FALSE,   \* the connection has ended for good
            bad |-> {} ]            \* labels of property clauses a returned error broke

NewResult(s, s2) == IF Len(s2.results) > Len(s.results) THEN s2.results[Len(s2.results)] ELSE <<>>

GhostMicro(s, g, a) ==
    LET s2 == Do1(s, a)
        r  == NewResult(s, s2)
        g1 == [g EXCEPT !.arrived = IF a.th = "H" /\ s.pcH = "buf.append" THEN Append(@, ToStr(s.hk + 1)) ELSE @,
                        !.finalEnded = @ \/ (a.th = "C" /\ s.pcC = "conn.set" /\ ~s.connected)]
        \* TimeoutError although an event was available and its handler had finished
        t  == r = <<"exc", "TimeoutError">> /\ s.buf # <<>> /\ s.pcH # "inp.set"
        \* DisconnectedError before the events received earlier were returned
        d  == r = <<"exc", "DisconnectedError">> /\ CurOp(s).op = "receive" /\ s.buf # <<>>
    IN  [g1 EXCEPT !.bad = @ \cup (IF t THEN {"timeout-with-event"} ELSE {})
                              \cup (IF d THEN {"disconnected-before-drained"} ELSE {})]

RECURSIVE GSettleA(_, _), GSettleH(_, _), GSettleC(_, _)
GSettleA(s, g) == IF s.pcA = "done" \/ (s.pcA \in {"conn.wait", "inp.wait"} /\ BlockedA(s)) THEN g
                  ELSE LET s2 == StepA(s, "run")
                       IN  IF s2 = s THEN g ELSE GSettleA(s2, GhostMicro(s, g, [th |-> "A", c |-> "run"]))
GSettleH(s, g) == IF s.pcH \in {"done", "h.arrive"} THEN g
                  ELSE GSettleH(StepH(s), GhostMicro(s, g, [th |-> "H", c |-> "run"]))
GSettleC(s, g) == IF s.pcC \in {"done", "c.next"} THEN g
                  ELSE GSettleC(StepC(s), GhostMicro(s, g, [th |-> "C", c |-> "run"]))

GhostNext(s, g, a) ==
    IF ~Atomic THEN GhostMicro(s, g, a)
    ELSE CASE a.th = "A" -> GSettleA(StepA(s, a.c), GhostMicro(s, g, a))
           [] a.th = "H" -> GSettleH(StepH(s), GhostMicro(s, g, a))
           [] a.th = "C" -> GSettleC(StepC(s), GhostMicro(s, g, a))

Init == st = InitSt /\ gh = InitGh
Next == \E a \in Choices(st) : st' = Do(st, a) /\ gh' = GhostNext(st, gh, a)
Spec == Init /\ [][Next]_vars /\ WF_vars(Next)

(* ---- the property ------------------------------------------------------ *)
Returned(s) ==      \* events returned by receive(), in order
    LET idx == {i \in 1..Len(s.results) : s.results[i][1] = "ok" /\ Len(s.results[i]) = 3}
        f[i \in 0..Len(s.results)] ==
            IF i = 0 THEN <<>> ELSE IF i \in idx THEN Append(f[i-1], s.results[i][3]) ELSE f[i-1]
    IN  f[Len(s.results)]

(* order, exactly once, nothing overtaken, nothing lost *)
C19_Order == Returned(st) \o st.buf = gh.arrived

C19_DisconnectedOnlyAfterFinal ==
    \A i \in 1..Len(st.results) : st.results[i] = <<"exc", "DisconnectedError">> => gh.finalEnded

(* strict reading of "TimeoutError only while no event is available" and    *)
(* "DisconnectedError once ... the events received before have been         *)
(* returned": violated in a narrow window (known finding D9)                *)
C19_NoErrorWhileEventAvailable == "D9" \in Dev \/ gh.bad = {}
D9_NotObservable == gh.bad = {}

C19_EmitWaitsOutReconnection ==     \* emit never fails while a reconnection is possible
    \A i \in 1..Len(st.results) :
        (App[i].op = "emit" /\ st.results[i][1] = "exc") => st.results[i] = <<"exc", "DisconnectedError">> /\ gh.finalEnded

(* liveness: a receive with a finite timeout terminates *)
C19_FiniteReceiveTerminates ==
    (\A i \in 1..Len(App) : App[i].to) => <>(st.pcA = "done")
=============================================================================
