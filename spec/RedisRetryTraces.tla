-------------------------- MODULE RedisRetryTraces --------------------------
(* Recorded executions of RedisManager / AsyncRedisManager over the fake   *)
(* redis client (scripted failures), replayed against RedisRetry.tla.      *)
EXTENDS RedisRetry, Json, IOUtils

G == JsonDeserialize(IOEnv.GRAPH_FILE)
VARIABLE node
ToSet(q) == {q[i] : i \in 1..Len(q)}
Chk(b, msg) == b \/ (PrintT(msg) /\ FALSE)

AllEventsOK ==
    \A i \in ToSet(G.out[node]) :
        Chk(EvOK(st, G.edges[i].e), <<"EVENT_REJECTED", i, G.edges[i].e, "in", st>>)

GInit == node = 1 /\ st = InitSt
GNext == \E i \in ToSet(G.out[node]) :
            node' = G.edges[i].dst /\ st' = Apply(st, G.edges[i].e)
=============================================================================
