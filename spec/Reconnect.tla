------------------------------ MODULE Reconnect ------------------------------
(***************************************************************************)
(* C10 - the client's reconnection policy (client.py                       *)
(* _handle_eio_disconnect 536-552, _handle_reconnect 454-497, shutdown     *)
(* 311-323; same in async_client.py).                                      *)
(*                                                                         *)
(* The state machine of ONE client: which events may follow which, with    *)
(* what arguments.  Time is in milliseconds (integers).  The policy is     *)
(* written as guards: an event the real client produced that is not        *)
(* enabled here is a violation (ReconnectTraces.tla replays recorded       *)
(* executions); TLC also explores the machine itself (Spec) to check that  *)
(* the guards imply the stated properties and that a bounded effort ends.  *)
(***************************************************************************)
EXTENDS Naturals, Integers, Sequences, FiniteSets, TLC

CONSTANTS Delays, Maxes, Rfs, AttemptBounds, MaxSteps,  \* for model-checking the machine itself
          Dev     \* known deviations modelled (known_findings.json); {} = the design

VARIABLES st
vars == <<st>>

Min(a, b) == IF a < b THEN a ELSE b
RECURSIVE Pow2(_)
Pow2(n) == IF n = 0 THEN 1 ELSE 2 * Pow2(n - 1)

(* the k-th wait (k >= 1) of an effort, before randomisation *)
Base(cfg, k) == Min(cfg.delay * Pow2(k - 1), cfg.max)

InitSt ==
    [ cfg     |-> [delay |-> 1000, max |-> 5000, rf |-> 500, attempts |-> 0, reconnection |-> TRUE],
      phase   |-> "idle",       \* idle | connected | retrying
      k       |-> 0,            \* attempts made in the current effort
      waited  |-> FALSE,        \* the back-off before attempt k+1 is over
      efforts |-> 0,            \* reconnection efforts alive (must stay <= 1)
      aborted |-> FALSE,        \* shutdown() was called during this effort
      orig    |-> <<>>,         \* parameters of the application's connect()
      nns     |-> 0,            \* number of namespaces it asked for
      stuck   |-> FALSE,        \* D8: an earlier effort gave up / was aborted (stale task reference)
      steps   |-> 0 ]

(* ---- events (e is a record with field ev) ------------------------------ *)
Causes == {"transport_error", "client_disconnect", "server_disconnect", "server_close"}

EvOK(s, e) ==
    CASE e.ev = "Config" -> s.phase = "idle" /\ s.steps = 0
      [] e.ev = "Connect" ->           \* the application connects
            s.phase = "idle" /\ s.efforts = 0
      [] e.ev = "Lose" ->
            /\ s.phase = "connected" /\ s.efforts = 0
            \* an effort starts iff the loss was accidental and reconnection is on
            \* (known finding D8: not after an earlier effort that gave up or was aborted)
            /\ e.started = (e.cause = "transport_error" /\ s.cfg.reconnection /\ ~s.stuck)
      [] e.ev = "Backoff" ->
            /\ s.phase = "retrying" /\ ~s.waited /\ ~s.aborted
            \* min(delay * 2^(k-1), delay_max) give or take randomization_factor
            \* (a wait cut short by shutdown() only has the upper bound)
            /\ (e.answer = "timeout" => e.d >= Base(s.cfg, s.k + 1) - s.cfg.rf - 1)
            /\ e.d <= Base(s.cfg, s.k + 1) + s.cfg.rf + 1
      [] e.ev = "Attempt" ->
            /\ s.phase = "retrying" /\ s.waited /\ ~s.aborted
            /\ (s.cfg.attempts > 0 => s.k + 1 <= s.cfg.attempts)
            \* same url, headers, auth, transports, namespaces ("*" = not observable:
            \* the engine.io connection failed before any CONNECT was sent)
            /\ \A i \in 1..5 : e.params[i] = "*" \/ e.params[i] = s.orig[i]
      [] e.ev = "Handlers" ->          \* connect handlers ran again after a successful attempt
            s.phase = "connected" /\ e.n = s.nns
      [] e.ev = "Shutdown" -> TRUE
      [] e.ev = "End" ->               \* the effort's task is over
            /\ s.efforts = 1
            /\ \/ e.how = "success" /\ s.phase = "connected"
               \/ e.how = "gaveup" /\ s.phase = "retrying" /\ s.waited = FALSE
                      /\ s.cfg.attempts > 0 /\ s.k = s.cfg.attempts
               \/ e.how = "aborted" /\ s.aborted
      [] OTHER -> FALSE

Apply(s, e) ==
    LET s1 == [s EXCEPT !.steps = @ + 1] IN
    CASE e.ev = "Config" -> [s1 EXCEPT !.cfg = e.cfg]
      [] e.ev = "Connect" -> IF e.ok THEN [s1 EXCEPT !.phase = "connected", !.orig = e.params, !.nns = e.nns] ELSE s1
      [] e.ev = "Lose" ->
            IF e.started THEN [s1 EXCEPT !.phase = "retrying", !.k = 0, !.waited = FALSE,
                                         !.efforts = @ + 1, !.aborted = FALSE]
            ELSE [s1 EXCEPT !.phase = "idle"]
      [] e.ev = "Backoff" ->
            IF e.answer = "abort" THEN [s1 EXCEPT !.aborted = TRUE] ELSE [s1 EXCEPT !.waited = TRUE]
      [] e.ev = "Attempt" ->
            IF e.outcome = "ok" THEN [s1 EXCEPT !.phase = "connected", !.k = @ + 1, !.waited = FALSE]
            ELSE [s1 EXCEPT !.k = @ + 1, !.waited = FALSE]
      [] e.ev = "Shutdown" -> s1
      [] e.ev = "End" ->
            [s1 EXCEPT !.efforts = @ - 1,
                       !.phase = IF e.how = "success" THEN "connected" ELSE "idle",
                       !.stuck = @ \/ ("D8" \in Dev /\ e.how # "success")]
      [] OTHER -> s1

(* ---- the machine explored on its own ----------------------------------- *)
P0 == <<"u", "h", "a", "t", "n">>
Events(s) ==
    {[ev |-> "Connect", ok |-> b, params |-> P0, nns |-> 2] : b \in BOOLEAN}
    \cup {[ev |-> "Lose", cause |-> c, started |-> (c = "transport_error" /\ s.cfg.reconnection /\ ~s.stuck)] : c \in Causes}
    \cup {[ev |-> "Backoff", d |-> Base(s.cfg, s.k + 1) + x, answer |-> a] :
              x \in {0 - s.cfg.rf, 0, s.cfg.rf}, a \in {"timeout", "abort"}}
    \cup {[ev |-> "Attempt", outcome |-> o, params |-> s.orig] : o \in {"ok", "eiofail", "nsrefused"}}
    \cup {[ev |-> "End", how |-> h] : h \in {"success", "gaveup", "aborted"}}

Init == \E d \in Delays, m \in Maxes, r \in Rfs, n \in AttemptBounds, rc \in BOOLEAN :
            st = [InitSt EXCEPT !.cfg = [delay |-> d, max |-> m, rf |-> r, attempts |-> n, reconnection |-> rc]]

Next == st.steps < MaxSteps /\ \E e \in Events(st) : EvOK(st, e) /\ st' = Apply(st, e)

Spec == Init /\ [][Next]_vars

(* ---- the property, as invariants of the machine ------------------------ *)
OneEffort       == st.efforts <= 1
EffortOnlyAfterAccident == st.phase = "retrying" => st.cfg.reconnection
AttemptBound    == st.cfg.attempts > 0 => st.k <= st.cfg.attempts
(* the statement: an accidental loss with reconnection enabled always starts an effort *)
AccidentStartsEffort == ~st.stuck
NoWaitedOutsideEffort == st.phase # "retrying" => ~st.waited
=============================================================================
