--------------------- MODULE SrvDisconnectThreadsGraph ---------------------
(* G2 for SrvDisconnectThreads: every scheduler step explored on the real   *)
(* threaded Server is re-executed with the spec.                            *)
EXTENDS SrvDisconnectThreads, Json, IOUtils

G == JsonDeserialize(IOEnv.GRAPH_FILE)
WithGhosts == IOEnv.WITH_GHOSTS = "1"
VARIABLE node
ToSet(q) == {q[i] : i \in 1..Len(q)}
Chk(b, msg) == b \/ (PrintT(msg) /\ FALSE)

NodeSt(n) ==
    LET j == G.nodes[n]
    IN  [ member |-> j.member, pending |-> j.pending, hruns |-> j.hruns, environ |-> j.environ,
          sent |-> j.sent, open |-> j.open, cb |-> j.cb, th |-> [i \in 1..Len(j.th) |-> j.th[i]] ]

EdgeOK(k) ==
    LET e == G.edges[k]
        d == Sched(st, e.a.i)
        n == NodeSt(e.dst)
    IN  /\ Chk(e.a.i \in Runnable(st), <<"EDGE_REJECTED", k, "thread-not-runnable-in-spec", e.a.i>>)
        /\ \A f \in DOMAIN n : Chk(d[f] = n[f], <<"EDGE_REJECTED", k, "state", f, "spec", d[f], "impl", n[f]>>)

AllEdgesOK == \A k \in ToSet(G.out[node]) : EdgeOK(k)
AlphabetComplete ==
    Chk({G.edges[k].a.i : k \in ToSet(G.out[node])} = Runnable(st), <<"ALPHABET_MISMATCH", node, Runnable(st)>>)

GInit == node = 1 /\ st = NodeSt(1) /\ gh = InitGh /\ Chk(NodeSt(1) = InitSt, <<"INIT_MISMATCH", NodeSt(1), InitSt>>)
GNext == \E k \in ToSet(G.out[node]) :
            /\ node' = G.edges[k].dst
            /\ st' = NodeSt(G.edges[k].dst)
            /\ gh' = IF WithGhosts THEN GhostNext(st, gh, G.edges[k].a.i) ELSE gh
=============================================================================
